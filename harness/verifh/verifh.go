// Package verifh is the part of the simulation harness shared by the three
// worlds: seed loop around rapid, replay mode, statistics, fail files.
// It is copied into the scratch module (internal/verifh) at check time.
package verifh

import (
	"encoding/binary"
	"encoding/json"
	"flag"
	"fmt"
	"hash/fnv"
	"os"
	"sort"
	"strconv"
	"sync"
	"testing"
	"time"

	"pgregory.net/rapid"
)

// Violation is what an oracle reports.
type Violation struct {
	Property string `json:"property"`
	Clause   string `json:"clause"`  // oracle clause, e.g. "window-membership"
	Op       string `json:"op"`      // operation kind, e.g. "ValidateHOTP"
	Witness  string `json:"witness"` // short, stable description of what fails (used by known findings)
	Detail   string `json:"detail"`  // free text with the concrete values
}

func (v *Violation) Signature() string {
	return v.Property + "/" + v.Clause + "/" + v.Op + "/" + v.Witness
}

// FailFile is the replay file format.
type FailFile struct {
	Property  string          `json:"property"`
	World     string          `json:"world"`
	Seed      uint64          `json:"seed"`
	Signature string          `json:"signature"`
	Violation Violation       `json:"violation"`
	Plan      json.RawMessage `json:"plan"`
	Crash     bool            `json:"crash,omitempty"` // written before an event: the process died while serving it

	// how this worker process got here: the whole sequence of plans it executed
	// can be regenerated from these (history replay, used when the violation
	// depends on state earlier runs of the same process left behind)
	WorkerSeed uint64 `json:"worker_seed,omitempty"`
	Checks     string `json:"checks,omitempty"`
	RunIndex   uint64 `json:"run_index,omitempty"`
	History    bool   `json:"history,omitempty"`
}

// Stats are accumulated per worker process and written to VERIF_OUT.
type Stats struct {
	Property    string            `json:"property"`
	World       string            `json:"world"`
	Runs        uint64            `json:"runs"`
	NonTrivial  uint64            `json:"nontrivial_runs"`
	Distinct    uint64            `json:"distinct_hashes"`
	Counters    map[string]uint64 `json:"counters"`
	SimTimeNs   float64           `json:"sim_time_ns"`
	Samples     []json.RawMessage `json:"samples"`
	WallS       float64           `json:"wall_s"`
	Seeds       []uint64          `json:"seeds"`
	Failed      bool              `json:"failed"`
	HarnessErr  string            `json:"harness_error,omitempty"`
	ReplaySig   string            `json:"replay_signature,omitempty"`
	ReplayFound bool              `json:"replay_found"`
}

var (
	mu         sync.Mutex
	stats      = Stats{Counters: map[string]uint64{}}
	distinct   = map[uint64]struct{}{}
	firstSig   string
	curSeed    uint64
	workerSeed uint64
	checksStr  string
	history    bool
	maxDist    = 400000
)

// Prop returns the property id this process decides (VERIF_PROP).
func Prop() string { return os.Getenv("VERIF_PROP") }

// Thorough reports the tier.
func Thorough() bool { return os.Getenv("VERIF_TIER") == "thorough" }

// Count adds n to a named counter (fault fired, probe reached, case skipped…).
func Count(name string, n uint64) {
	mu.Lock()
	stats.Counters[name] += n
	mu.Unlock()
}

// AddSimTime accumulates simulated time.
func AddSimTime(ns float64) {
	mu.Lock()
	stats.SimTimeNs += ns
	mu.Unlock()
}

// Hash64 is FNV-1a of the given parts.
func Hash64(parts ...any) uint64 {
	h := fnv.New64a()
	for _, p := range parts {
		fmt.Fprint(h, p)
		h.Write([]byte{0})
	}
	return h.Sum64()
}

// Distinct records a state / interleaving hash.
func Distinct(h uint64) {
	mu.Lock()
	if len(distinct) < maxDist {
		distinct[h] = struct{}{}
	}
	mu.Unlock()
}

// RunDone records the end of one simulated run.
func RunDone(nontrivial bool, plan any) {
	mu.Lock()
	stats.Runs++
	if nontrivial {
		stats.NonTrivial++
		if len(stats.Samples) < 2 {
			if b, err := json.Marshal(plan); err == nil && len(b) < 20000 {
				stats.Samples = append(stats.Samples, b)
			}
		}
	}
	mu.Unlock()
}

// Report is called by a world's property function when an oracle fired. It
// writes the fail file and fails the rapid test – unless we are shrinking and
// the signature is not the one first found (shrinking stays inside one
// violation class).
func Report(t interface {
	Fatalf(string, ...any)
}, world string, plan any, v *Violation) {
	sig := v.Signature()
	mu.Lock()
	if firstSig == "" {
		firstSig = sig
	}
	same := firstSig == sig
	seed := curSeed
	runIdx := stats.Runs
	if history && !stats.ReplayFound {
		stats.ReplayFound, stats.ReplaySig = true, sig
		fmt.Printf("REPLAY-RESULT signature=%s (history replay, run %d)\nREPLAY-DETAIL %s\n", sig, runIdx, v.Detail)
	}
	mu.Unlock()
	if !same {
		return
	}
	pb, _ := json.Marshal(plan)
	ff := FailFile{Property: v.Property, World: world, Seed: seed, Signature: sig, Violation: *v, Plan: pb, WorkerSeed: workerSeed, Checks: checksStr, RunIndex: runIdx}
	if p := os.Getenv("VERIF_FAIL"); p != "" {
		b, _ := json.MarshalIndent(ff, "", " ")
		_ = os.WriteFile(p, b, 0o644)
	}
	t.Fatalf("VIOLATION %s: %s", sig, v.Detail)
}

// Pending leaves a witness behind before a plan is executed: if the process
// dies while executing it (an unrecovered panic in a goroutine the code under
// test started, a stack overflow, a fatal runtime error), the runner finds this
// file, replays the plan in a fresh process and - only if that process dies
// again, in code of the package under test - reports <prop>/process-survives.
// Removed again when the worker ends normally.
func Pending(world string, plan any) {
	fp := os.Getenv("VERIF_FAIL")
	if fp == "" || os.Getenv("VERIF_REPLAY") != "" {
		return
	}
	pb, err := json.Marshal(plan)
	if err != nil {
		return
	}
	prop := Prop()
	v := Violation{Property: prop, Clause: "process-survives", Op: "world-" + world, Witness: "process-crash", Detail: "the process died while executing this plan (unrecovered panic or fatal error in the package under test)"}
	ff := FailFile{Property: prop, World: world, Signature: v.Signature(), Violation: v, Plan: pb, Crash: true}
	ff.Seed, ff.WorkerSeed, ff.Checks, ff.RunIndex = HistoryInfo()
	b, _ := json.Marshal(ff)
	_ = os.WriteFile(fp+".pending", b, 0o644)
}

// HistoryInfo: how this worker process got to the current run (for witnesses a
// world writes itself, e.g. before an event that may kill the process).
func HistoryInfo() (seed, worker uint64, checks string, runIndex uint64) {
	mu.Lock()
	defer mu.Unlock()
	return curSeed, workerSeed, checksStr, stats.Runs
}

// Main must be called from TestMain: it runs the tests and writes the stats.
func Main(m *testing.M, world string) {
	start := time.Now()
	stats.World = world
	stats.Property = Prop()
	code := m.Run()
	if fp := os.Getenv("VERIF_FAIL"); fp != "" {
		_ = os.Remove(fp + ".pending")
	}
	mu.Lock()
	stats.WallS = time.Since(start).Seconds()
	stats.Distinct = uint64(len(distinct))
	stats.Failed = code != 0
	if p := os.Getenv("VERIF_OUT"); p != "" {
		b, _ := json.Marshal(stats)
		_ = os.WriteFile(p, b, 0o644)
		hs := make([]uint64, 0, len(distinct))
		for h := range distinct {
			hs = append(hs, h)
		}
		sort.Slice(hs, func(i, j int) bool { return hs[i] < hs[j] })
		buf := make([]byte, 8*len(hs))
		for i, h := range hs {
			binary.LittleEndian.PutUint64(buf[8*i:], h)
		}
		_ = os.WriteFile(p+".hashes", buf, 0o644)
	}
	mu.Unlock()
	os.Exit(code)
}

type fataler struct{ t *testing.T }

func (f fataler) Fatalf(format string, args ...any) { f.t.Logf(format, args...) }

// Drive runs the simulation: in replay mode (VERIF_REPLAY) it executes the
// stored plan once through replay(); otherwise it loops rapid.Check over
// derived seeds until the budget (VERIF_BUDGET_S) is used up or a check fails.
func Drive(t *testing.T, world string, prop func(*testing.T, *rapid.T), replay func(plan json.RawMessage) *Violation) {
	if rp := os.Getenv("VERIF_REPLAY"); rp != "" {
		b, err := os.ReadFile(rp)
		if err != nil {
			t.Fatalf("HARNESS-ERROR: %v", err)
		}
		var ff FailFile
		if err := json.Unmarshal(b, &ff); err != nil {
			t.Fatalf("HARNESS-ERROR: bad replay file: %v", err)
		}
		v := replay(ff.Plan)
		mu.Lock()
		if v != nil {
			stats.ReplayFound = true
			stats.ReplaySig = v.Signature()
		}
		mu.Unlock()
		if v != nil {
			fmt.Printf("REPLAY-RESULT signature=%s\nREPLAY-DETAIL %s\n", v.Signature(), v.Detail)
		} else {
			fmt.Printf("REPLAY-RESULT none\n")
		}
		return
	}
	base, _ := strconv.ParseUint(os.Getenv("VERIF_WORKER_SEED"), 10, 64)
	if base == 0 {
		base = 1
	}
	budget, _ := strconv.ParseFloat(os.Getenv("VERIF_BUDGET_S"), 64)
	if budget <= 0 {
		budget = 10
	}
	checks := os.Getenv("VERIF_CHECKS")
	if checks == "" {
		checks = "100"
	}
	maxRuns, _ := strconv.ParseUint(os.Getenv("VERIF_MAX_RUNS"), 10, 64)
	shrink := os.Getenv("VERIF_SHRINK")
	if shrink == "" {
		shrink = "20s"
	}
	mu.Lock()
	workerSeed, checksStr = base, checks
	history = os.Getenv("VERIF_HISTORY") != ""
	mu.Unlock()
	if history {
		shrink = "1ms" // regenerate the same sequence of plans, stop at the first violation, do not shrink
	}
	_ = flag.Set("rapid.checks", checks)
	_ = flag.Set("rapid.shrinktime", shrink)
	_ = flag.Set("rapid.nofailfile", "true")
	start := time.Now()
	for i := uint64(0); ; i++ {
		seed := Hash64("verif", base, i)>>1 | 1
		mu.Lock()
		curSeed = seed
		stats.Seeds = append(stats.Seeds, seed)
		if len(stats.Seeds) > 64 {
			stats.Seeds = stats.Seeds[:64]
		}
		mu.Unlock()
		_ = flag.Set("rapid.seed", strconv.FormatUint(seed, 10))
		ok := t.Run(fmt.Sprintf("seed%d", seed), func(t *testing.T) { rapid.Check(t, func(rt *rapid.T) { prop(t, rt) }) })
		if !ok {
			return
		}
		if time.Since(start).Seconds() >= budget {
			return
		}
		mu.Lock()
		r := stats.Runs
		mu.Unlock()
		if maxRuns != 0 && r >= maxRuns {
			return
		}
	}
}

// HarnessError marks the run as infrastructure trouble (runner exits 2).
func HarnessError(format string, args ...any) {
	mu.Lock()
	if stats.HarnessErr == "" {
		stats.HarnessErr = fmt.Sprintf(format, args...)
	}
	mu.Unlock()
}
