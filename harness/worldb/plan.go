// Package worldb: token <-> verifier protocol simulation (DESIGN.md 3.2).
// Decides C02, C03, C04, C06, C13.
package worldb

import (
	"sort"

	"github.com/ja7ad/otp"
	"github.com/ja7ad/otp/internal/verifh"
	"pgregory.net/rapid"
)

// Plan is plain data: one plan = one exactly repeatable execution.
type Plan struct {
	Prop       string    `json:"prop"`
	Fresh      bool      `json:"fresh,omitempty"`       // every library call gets freshly allocated copies of its strings
	GCBefore   []int     `json:"gc_before,omitempty"`   // a garbage collection right before these library calls (call indices of the run)
	GCInCall   [][2]int  `json:"gc_in_call,omitempty"`  // (call index, statement): a collection + finalizers inside that call
	InnerSched uint64    `json:"inner_sched,omitempty"` // seed of the per-call goroutine schedules (used only when the library starts goroutines itself)
	MonoMode   int       `json:"mono_mode,omitempty"`   // 0 consistent monotonic readings; 1 constant reading; 2 reading running backwards
	BaseSec    int64     `json:"base_sec"`              // verifier wall clock at simulated time 0
	BaseNsec   int64     `json:"base_nsec"`             //
	Accounts   []Account `json:"accounts"`
	Events     []Event   `json:"events"`
}

type Account struct {
	Kind     string `json:"kind"` // hotp | totp | ocra
	Secret   []byte `json:"secret"`
	Spelling int    `json:"spelling"`
	VerSpell int    `json:"ver_spell,omitempty"` // 0: the verifier stores the token's spelling; k: spelling k-1 of the same secret
	BadStore int    `json:"bad_store,omitempty"` // verifier's stored secret is damaged (misconfiguration)
	Digits   int    `json:"digits"`
	Algo     int    `json:"algo"`
	NilParam bool   `json:"nil_param,omitempty"`
	Skew     uint64 `json:"skew"`

	// token-side deviations (token configured differently from the verifier)
	TokDigits int `json:"tok_digits,omitempty"` // 0 = same as verifier
	TokAlgo   int `json:"tok_algo,omitempty"`   // 0 = same, else value+1

	// hotp
	Counter0     uint64 `json:"counter0,omitempty"`
	Lead         int    `json:"lead,omitempty"` // verifier starts at Counter0+Lead
	PersistEvery int    `json:"persist_every,omitempty"`

	// totp / ocra clocks
	Period      uint64 `json:"period"`
	TokOffsetS  int64  `json:"tok_offset_s,omitempty"`
	TokOffsetNs int64  `json:"tok_offset_ns,omitempty"`
	DriftPPM    int    `json:"drift_ppm,omitempty"`
	Zone        int    `json:"zone,omitempty"`
	Mono        bool   `json:"mono,omitempty"`

	// ocra
	Suite      SuiteSpec  `json:"suite"`
	Pin        []byte     `json:"pin,omitempty"`
	TokPin     []byte     `json:"tok_pin,omitempty"` // nil = same
	Session    []byte     `json:"session,omitempty"`
	TokSession []byte     `json:"tok_session,omitempty"`
	TokSuite   *SuiteSpec `json:"tok_suite,omitempty"` // client configured with a neighbouring suite
}

// SuiteSpec says how the OCRA suite value is obtained.
type SuiteSpec struct {
	Mode string `json:"mode"` // registered | parsed | newsuite | rawstruct | config
	Name string `json:"name,omitempty"`
	// hand-built configuration
	Raw           string `json:"raw,omitempty"`
	Hash          int    `json:"hash,omitempty"`
	Digits        int    `json:"digits,omitempty"`
	Challenge     int    `json:"challenge,omitempty"`
	C, Q, P, S, T bool
	PHash         int `json:"phash,omitempty"`
	TimeStep      int `json:"timestep,omitempty"`
}

type Net struct {
	DelayNs    int64 `json:"delay_ns,omitempty"`
	Drop       bool  `json:"drop,omitempty"`
	Dup        bool  `json:"dup,omitempty"`
	DupDelayNs int64 `json:"dup_delay_ns,omitempty"`
	Corrupt    int   `json:"corrupt,omitempty"`
	CArg       int   `json:"carg,omitempty"`
}

type Event struct {
	DtNs int64  `json:"dt_ns"`
	Acct int    `json:"acct"`
	Kind string `json:"kind"` // press burst crash jump display replay challenge resync provision misc
	N    int    `json:"n,omitempty"`
	Who  int    `json:"who,omitempty"` // jump: 0 token, 1 verifier
	// aimed fault: realise this signed distance (token - verifier) at delivery
	Alias     int    `json:"alias,omitempty"` // TOTP: move the clock to an instant that aliases the previous TOTP call's (second, period) under truncation / folding
	Aimed     bool   `json:"aimed,omitempty"`
	Aim       int    `json:"aim,omitempty"`
	PhaseS    uint64 `json:"phase_s,omitempty"` // seconds into the step (mod period)
	PhaseNs   int64  `json:"phase_ns,omitempty"`
	Net       Net    `json:"net"`
	Net2      Net    `json:"net2"` // OCRA: the response leg
	Chal      []byte `json:"chal,omitempty"`
	ViewFault int    `json:"view_fault,omitempty"` // OCRA: verifier's own input made inadmissible
	Str       string `json:"str,omitempty"`        // arbitrary submitted string
}

// ---------------------------------------------------------------------------
// generators

var sortedSuites = func() []string {
	l := otp.ListSuites()
	sort.Strings(l)
	return l
}()

func weighted(t *rapid.T, label string, weights ...int) int {
	sum := 0
	for _, w := range weights {
		sum += w
	}
	x := rapid.IntRange(0, sum-1).Draw(t, label)
	for i, w := range weights {
		if x < w {
			return i
		}
		x -= w
	}
	return len(weights) - 1
}

// family: per-plan base of related secrets (see World A): accounts whose keys
// share a prefix, a length, or differ in one byte.
var family []byte

func genSecret(t *rapid.T) []byte {
	if len(family) > 0 && weighted(t, "related?", 2, 1) == 1 {
		b := append([]byte(nil), family...)
		n := len(b)
		switch rapid.IntRange(0, 5).Draw(t, "relKind") {
		case 0:
		case 1:
			b[n-1] ^= 0x01
		case 2:
			i := rapid.SampledFrom([]int{0, 19, 31, 63, 64, 65}).Draw(t, "relPos")
			if i >= n {
				i = n - 1
			}
			b[i] ^= 0x55
		case 3:
			b = append(b, rapid.Byte().Draw(t, "relExtra"))
		case 4:
			b = b[:n-1]
		default:
			b[n/2] ^= 0x80
		}
		return b
	}
	switch weighted(t, "secretClass", 6, 1, 1, 1, 1) {
	case 0:
		return rapid.SliceOfN(rapid.Byte(), 10, 32).Draw(t, "secret")
	case 1:
		return []byte{}
	case 2:
		return rapid.SliceOfN(rapid.Byte(), 1, 9).Draw(t, "secretShort")
	case 3:
		return rapid.SliceOfN(rapid.Byte(), 63, 66).Draw(t, "secretBlock")
	default:
		return rapid.SliceOfN(rapid.Byte(), 100, 200).Draw(t, "secretLong")
	}
}

func genNet(t *rapid.T, unit int64, heavy bool) Net {
	var n Net
	switch weighted(t, "delayClass", 5, 3, 1) {
	case 0:
		n.DelayNs = rapid.Int64Range(0, 50e6).Draw(t, "delay")
	case 1:
		n.DelayNs = rapid.Int64Range(0, 3*unit).Draw(t, "delayU")
	case 2:
		n.DelayNs = rapid.Int64Range(0, 14*unit).Draw(t, "delayL")
	}
	dropW, dupW := 1, 1
	if heavy {
		dropW, dupW = 3, 3
	}
	n.Drop = weighted(t, "drop", 10-dropW, dropW) == 1
	n.Dup = weighted(t, "dup", 10-dupW, dupW) == 1
	if n.Dup {
		n.DupDelayNs = rapid.Int64Range(0, 4*unit).Draw(t, "dupDelay")
	}
	if weighted(t, "corrupt?", 5, 2) == 1 {
		n.Corrupt = rapid.IntRange(1, nCorrupt).Draw(t, "corrupt")
		n.CArg = rapid.IntRange(0, 255).Draw(t, "carg")
	}
	return n
}

func genCounter0(t *rapid.T) uint64 {
	k := rapid.Uint64Range(0, 16).Draw(t, "ck")
	switch weighted(t, "c0class", 4, 3, 1, 1, 3, 2, 2) {
	case 0:
		return k
	case 1:
		return rapid.Uint64Range(0, 1<<20).Draw(t, "c0small")
	case 2:
		return 1<<31 - 8 + k
	case 3:
		return 1<<32 - 8 + k
	case 4:
		return 1<<63 - 8 + k
	case 5:
		return ^uint64(0) - 30 + k
	default:
		return rapid.Uint64().Draw(t, "c0any")
	}
}

func genSkew(t *rapid.T, allowBad bool) uint64 {
	w := 0
	if allowBad {
		w = 2
	}
	switch weighted(t, "skewClass", 14, w) {
	case 0:
		return rapid.Uint64Range(0, 10).Draw(t, "skew")
	default:
		return rapid.SampledFrom([]uint64{11, 12, 100, 200000, 1 << 32, 1<<63 - 1, 1 << 63, ^uint64(0)}).Draw(t, "badSkew")
	}
}

func genPeriod(t *rapid.T) uint64 {
	switch weighted(t, "periodClass", 3, 3, 2, 2, 2, 1, 1) {
	case 0:
		return 30
	case 1:
		return 0
	case 2:
		return 1
	case 3:
		return 60
	case 4:
		return rapid.Uint64Range(2, 600).Draw(t, "period")
	case 5:
		return rapid.Uint64Range(601, 1<<32).Draw(t, "periodBig")
	default:
		return 1 << 32
	}
}

func genBase(t *rapid.T) (int64, int64) {
	var sec int64
	switch weighted(t, "baseClass", 3, 5, 2, 1, 1, 4) {
	case 0:
		sec = rapid.Int64Range(0, 4000).Draw(t, "baseSmall")
	case 1:
		sec = rapid.Int64Range(1_000_000_000, 2_200_000_000).Draw(t, "baseNow")
	case 2:
		sec = rapid.Int64Range(0, 1<<40).Draw(t, "baseMid")
	case 3:
		sec = rapid.Int64Range(1<<40, 1<<62-1<<36).Draw(t, "baseHuge")
	case 4:
		sec = 1<<31 - 100 + rapid.Int64Range(0, 200).Draw(t, "base2038")
	default:
		// around a daylight-saving change of one of the presentation zones
		sec = rapid.SampledFrom(DSTInstants).Draw(t, "baseDST") + rapid.Int64Range(-7500, 7500).Draw(t, "baseDSTOff")
	}
	nsec := rapid.SampledFrom([]int64{0, 1, 999_999_999, 500_000_000, 123_456_789}).Draw(t, "baseNsec")
	return sec, nsec
}

func genDigits(t *rapid.T) int {
	switch weighted(t, "digitsClass", 5, 3, 2, 3) {
	case 0:
		return 6
	case 1:
		return 8
	case 2:
		return rapid.IntRange(1, 5).Draw(t, "digitsLow")
	default:
		return rapid.IntRange(7, 10).Draw(t, "digitsHigh")
	}
}

func genSuiteSpec(t *rapid.T, allowInvalid bool) SuiteSpec {
	modeW := []int{6, 3, 2, 1, 2}
	switch weighted(t, "suiteMode", modeW...) {
	case 0:
		return SuiteSpec{Mode: "registered", Name: rapid.SampledFrom(sortedSuites).Draw(t, "suiteName")}
	case 1:
		return SuiteSpec{Mode: "parsed", Name: genSuiteString(t, allowInvalid)}
	case 2:
		s := genBuilt(t, allowInvalid)
		s.Mode = "newsuite"
		return s
	case 3:
		s := genBuilt(t, allowInvalid)
		s.Mode = "rawstruct"
		return s
	default:
		s := genBuilt(t, allowInvalid)
		s.Mode = "config"
		return s
	}
}

func genSuiteString(t *rapid.T, allowInvalid bool) string {
	hash := rapid.SampledFrom([]string{"SHA1", "SHA256", "SHA512"}).Draw(t, "sHash")
	dig := rapid.IntRange(4, 10).Draw(t, "sDig")
	if allowInvalid && weighted(t, "sDigBad", 9, 1) == 1 {
		dig = rapid.SampledFrom([]int{0, 3, 11, 12}).Draw(t, "sDigBadV")
	}
	s := "OCRA-1:HOTP-" + hash + "-" + itoa(dig) + ":"
	var toks []string
	if rapid.Bool().Draw(t, "sC") {
		toks = append(toks, "C")
	}
	qf := "N"
	if allowInvalid && weighted(t, "sQfmt", 8, 2) == 1 {
		// the parser does not fill the format for A/H: suite is then invalid
		qf = rapid.SampledFrom([]string{"A", "H"}).Draw(t, "sQf")
	}
	toks = append(toks, "Q"+qf+rapid.SampledFrom([]string{"08", "10"}).Draw(t, "sQl"))
	if rapid.Bool().Draw(t, "sP") {
		toks = append(toks, "P"+rapid.SampledFrom([]string{"SHA1", "SHA256", "SHA512"}).Draw(t, "sPh"))
	}
	if rapid.Bool().Draw(t, "sS") {
		toks = append(toks, rapid.SampledFrom([]string{"S", "S064", "S128"}).Draw(t, "sSl"))
	}
	if rapid.Bool().Draw(t, "sT") {
		toks = append(toks, "T"+itoa(rapid.IntRange(1, 59).Draw(t, "sTn"))+rapid.SampledFrom([]string{"S", "M", "H"}).Draw(t, "sTu"))
	}
	for i, tk := range toks {
		if i > 0 {
			s += "-"
		}
		s += tk
	}
	if allowInvalid && weighted(t, "sMangle", 12, 1) == 1 {
		s = rapid.SampledFrom([]string{"", "OCRA-1", "OCRA-2:HOTP-SHA1-6:QN08", "OCRA-1:HOTP-MD5-6:QN08", "OCRA-1:HOTP-SHA1-6:ZZ", "OCRA-1:HOTP-SHA1-x:QN08", s + "-X9"}).Draw(t, "sMangled")
	}
	return s
}

func genBuilt(t *rapid.T, allowInvalid bool) SuiteSpec {
	s := SuiteSpec{
		Raw:       rapid.SampledFrom([]string{"", "OCRA-1:HOTP-SHA1-6:QN08", "OCRA-1:HOTP-SHA256-8:C-QA10", "OCRA-1:HOTP-SHA512-6:C", "custom", "x:y:z"}).Draw(t, "bRaw"),
		Hash:      rapid.IntRange(0, 2).Draw(t, "bHash"),
		Digits:    rapid.IntRange(4, 10).Draw(t, "bDig"),
		Challenge: rapid.IntRange(1, 6).Draw(t, "bChal"),
		C:         rapid.Bool().Draw(t, "bC"),
		Q:         weighted(t, "bQ", 1, 4) == 1,
		P:         rapid.Bool().Draw(t, "bP"),
		S:         rapid.Bool().Draw(t, "bS"),
		T:         rapid.Bool().Draw(t, "bT"),
		PHash:     rapid.IntRange(1, 3).Draw(t, "bPH"),
		TimeStep:  rapid.SampledFrom([]int{1, 30, 60, 3600}).Draw(t, "bTS"),
	}
	if allowInvalid && weighted(t, "bBad", 5, 1) == 1 {
		switch rapid.IntRange(0, 5).Draw(t, "bBadKind") {
		case 0:
			s.Digits = rapid.SampledFrom([]int{-1, 0, 3, 11, 12}).Draw(t, "bBadDig")
		case 1:
			s.Hash = rapid.SampledFrom([]int{3, 4, 255}).Draw(t, "bBadHash")
		case 2:
			s.P, s.PHash = true, 0
		case 3:
			s.T, s.TimeStep = true, rapid.SampledFrom([]int{0, -1}).Draw(t, "bBadTS")
		case 4:
			s.Q, s.Challenge = true, 0
		case 5:
			s.Challenge = rapid.SampledFrom([]int{7, -1, 100}).Draw(t, "bBadCh")
		}
	}
	return s
}

func genAccount(t *rapid.T, prop string, kind string) Account {
	misc := prop == "C13" || prop == "C06" // misconfiguration faults allowed
	a := Account{Kind: kind}
	a.Secret = genSecret(t)
	a.Spelling = rapid.IntRange(0, 5).Draw(t, "spelling")
	if weighted(t, "verSpell?", 2, 1) == 1 {
		// token and verifier hold the same secret in two of its documented spellings
		// (padding or not, case, surrounding white space)
		a.VerSpell = 1 + rapid.IntRange(0, 5).Draw(t, "verSpell")
	}
	a.Digits = genDigits(t)
	a.Algo = rapid.IntRange(0, 2).Draw(t, "algo")
	badW := 0
	if prop == "C13" {
		badW = 2
	} else if prop == "C03" || prop == "C04" || prop == "C06" || prop == "C02" {
		badW = 1
	}
	if weighted(t, "badStore?", 14, badW) == 1 {
		a.BadStore = rapid.IntRange(1, 8).Draw(t, "badStore")
	}
	if weighted(t, "badAlgo?", 14, badW) == 1 {
		a.Algo = rapid.SampledFrom([]int{3, 4, 200, 255}).Draw(t, "badAlgo")
	}
	if weighted(t, "tokDev?", 8, 1) == 1 {
		a.TokDigits = genDigits(t)
	}
	if weighted(t, "tokDevA?", 10, 1) == 1 {
		a.TokAlgo = rapid.IntRange(0, 2).Draw(t, "tokAlgo") + 1
	}
	switch kind {
	case "hotp":
		a.NilParam = weighted(t, "nilParam", 6, 1) == 1
		a.Skew = genSkew(t, true)
		a.Counter0 = genCounter0(t)
		a.Lead = rapid.IntRange(-3, 3).Draw(t, "lead")
		a.PersistEvery = rapid.IntRange(1, 6).Draw(t, "persist")
	case "totp":
		a.NilParam = weighted(t, "nilParam", 6, 1) == 1
		a.Skew = genSkew(t, true)
		a.Period = genPeriod(t)
		a.TokOffsetS = rapid.Int64Range(-90, 90).Draw(t, "tokOffS")
		a.TokOffsetNs = rapid.Int64Range(0, 999_999_999).Draw(t, "tokOffNs")
		a.DriftPPM = rapid.IntRange(-300, 300).Draw(t, "drift")
		if weighted(t, "sameClock?", 3, 1) == 1 {
			// several tokens on exactly the verifier's clock: the same second is asked
			// for with different periods / digits / hashes in one history
			a.TokOffsetS, a.TokOffsetNs, a.DriftPPM = 0, 0, 0
		}
		a.Zone = rapid.IntRange(0, 9).Draw(t, "zone")
		a.Mono = rapid.Bool().Draw(t, "mono")
	case "ocra":
		a.Suite = genSuiteSpec(t, misc)
		a.Counter0 = genCounter0(t)
		a.Pin = rapid.SliceOfN(rapid.Byte(), 64, 64).Draw(t, "pin")
		if weighted(t, "tokPin?", 8, 1) == 1 {
			a.TokPin = rapid.SliceOfN(rapid.Byte(), 64, 64).Draw(t, "tokPin")
		}
		a.Session = rapid.SliceOfN(rapid.Byte(), 0, 128).Draw(t, "session")
		if weighted(t, "tokSess?", 8, 1) == 1 {
			a.TokSession = rapid.SliceOfN(rapid.Byte(), 0, 128).Draw(t, "tokSession")
		}
		switch weighted(t, "tokSuite?", 8, 1, 2) {
		case 1:
			ts := genSuiteSpec(t, false)
			a.TokSuite = &ts
		case 2:
			// the same configuration handed over through another Suite implementation
			// (SuiteConfig value / RawSuite struct / NewSuite result): must mean the same
			if a.Suite.Mode == "newsuite" || a.Suite.Mode == "rawstruct" || a.Suite.Mode == "config" {
				ts := a.Suite
				ts.Mode = rapid.SampledFrom([]string{"newsuite", "rawstruct", "config"}).Draw(t, "tokSuiteMode")
				a.TokSuite = &ts
			}
		}
		a.TokOffsetS = rapid.Int64Range(-5, 5).Draw(t, "tokOffS")
		a.DriftPPM = rapid.IntRange(-300, 300).Draw(t, "drift")
	}
	return a
}

// genReconfig: the operator changes the verifier's window for one account
// while the history goes on (N = new window). For HOTP the verifier process may
// in addition have died after its last answer and before it stored the
// advanced counter (Who = 1: on restart it is back at the counter of that
// answer), and the token's owner may submit the latest code once more at once
// (Aimed). Together these repeat an earlier validation call with only the
// window changed - narrower or wider.
func genReconfig(t *rapid.T, e *Event, hotp bool) {
	e.Kind = "reconfig"
	e.N = int(genSkew(t, weighted(t, "reconfBad?", 12, 1) == 1) & 0xfffff)
	if hotp {
		e.Who = weighted(t, "verLostUpdate?", 1, 2)
	}
	e.Aimed = weighted(t, "retryNow?", 1, 3) == 1
}

func genEvent(t *rapid.T, prop string, accts []Account) Event {
	var e Event
	e.Acct = rapid.IntRange(0, len(accts)-1).Draw(t, "acct")
	a := accts[e.Acct]
	unit := int64(30e9)
	if a.Kind == "totp" {
		p := a.Period
		if p == 0 {
			p = 30
		}
		if p > 100000 {
			p = 100000
		}
		unit = int64(p) * 1e9
	}
	switch weighted(t, "dtClass", 4, 4, 2, 1) {
	case 0:
		e.DtNs = rapid.Int64Range(0, 2e9).Draw(t, "dt")
	case 1:
		e.DtNs = rapid.Int64Range(0, 2*unit).Draw(t, "dtU")
	case 2:
		e.DtNs = rapid.Int64Range(0, 20*unit).Draw(t, "dtL")
	default:
		e.DtNs = rapid.Int64Range(0, 40*86400e9).Draw(t, "dtDays")
	}
	s := int(a.Skew)
	if a.Skew > 10 {
		s = 2
	}
	if a.NilParam {
		if a.Kind == "hotp" {
			s = 2
		} else {
			s = 0
		}
	}
	aim := func() {
		e.Aimed = weighted(t, "aimed?", 1, 2) == 1
		if e.Aimed {
			switch weighted(t, "aimClass", 4, 3, 2) {
			case 0: // exactly on / just beyond the window edge
				e.Aim = rapid.SampledFrom([]int{-(s + 1), -s, s, s + 1}).Draw(t, "aimEdge")
			case 1:
				e.Aim = rapid.IntRange(-(s+3), s+3).Draw(t, "aim")
			default:
				e.Aim = 0
			}
			e.PhaseS = rapid.SampledFrom([]uint64{0, 1, 2, ^uint64(0), ^uint64(0) - 1, 12345}).Draw(t, "phaseS")
			e.PhaseNs = rapid.SampledFrom([]int64{0, 1, 999_999_999, 500_000_000}).Draw(t, "phaseNs")
		}
	}
	switch a.Kind {
	case "hotp":
		switch weighted(t, "hotpEv", 10, 2, 1, 1, 1, 2) {
		case 0:
			e.Kind = "press"
			aim()
			e.Net = genNet(t, unit, true)
		case 1:
			e.Kind = "burst"
			e.N = rapid.IntRange(1, 14).Draw(t, "burst")
		case 2:
			e.Kind = "crash"
		case 3:
			e.Kind = "replay"
			e.N = rapid.IntRange(0, 30).Draw(t, "replayIdx")
			e.Net = genNet(t, unit, false)
		case 5:
			genReconfig(t, &e, true)
		default:
			e.Kind = "arbitrary"
			e.Str = genArbitrary(t)
		}
	case "totp":
		evW := []int{10, 2, 1, 1, 0, 2}
		if prop == "C02" {
			evW = []int{2, 2, 0, 0, 10, 0}
		}
		switch weighted(t, "totpEv", evW...) {
		case 0:
			e.Kind = "press"
			aim()
			e.Net = genNet(t, unit, false)
			if weighted(t, "aliasP?", 8, 1) == 1 {
				e.Alias = rapid.IntRange(1, 4000).Draw(t, "aliasP")
			}
		case 1:
			e.Kind = "jump"
			e.Who = rapid.IntRange(0, 1).Draw(t, "who")
			e.N = rapid.IntRange(-14, 14).Draw(t, "jumpSteps")
			e.PhaseNs = rapid.Int64Range(-2e9, 2e9).Draw(t, "jumpExtra")
		case 2:
			e.Kind = "replay"
			e.N = rapid.IntRange(0, 30).Draw(t, "replayIdx")
			e.Net = genNet(t, unit, false)
		case 3:
			e.Kind = "arbitrary"
			e.Str = genArbitrary(t)
		case 5:
			genReconfig(t, &e, false)
		default:
			e.Kind = "display"
			aim()
			e.N = rapid.IntRange(0, 6).Draw(t, "boundaryOff") // index into boundary offsets
			if weighted(t, "alias?", 5, 1) == 1 {
				e.Alias = rapid.IntRange(1, 4000).Draw(t, "alias")
			}
		}
	case "ocra":
		switch weighted(t, "ocraEv", 10, 1, 1, 1) {
		case 0:
			e.Kind = "challenge"
			e.Chal = rapid.SliceOfN(rapid.Byte(), 10, 128).Draw(t, "chal")
			if weighted(t, "chalShort", 6, 1) == 1 {
				e.Chal = rapid.SliceOfN(rapid.Byte(), 0, 12).Draw(t, "chalS")
			}
			e.Net = genNet(t, unit, false)
			e.Net2 = genNet(t, unit, false)
			if weighted(t, "viewFault?", 8, 1) == 1 {
				e.ViewFault = rapid.IntRange(1, nViewFault).Draw(t, "viewFault")
			}
		case 1:
			e.Kind = "resync"
		case 2:
			e.Kind = "jump"
			e.Who = rapid.IntRange(0, 1).Draw(t, "who")
			e.N = rapid.IntRange(-3, 3).Draw(t, "jumpSteps")
		default:
			e.Kind = "arbitrary"
			e.Str = genArbitrary(t)
		}
	}
	if prop == "C13" && weighted(t, "misc?", 10, 1) == 1 {
		e.Kind = "misc"
		e.N = rapid.IntRange(0, nMisc-1).Draw(t, "misc")
		e.Net = Net{Corrupt: rapid.IntRange(0, nURLCorrupt).Draw(t, "urlCorrupt")}
	}
	return e
}

func genArbitrary(t *rapid.T) string {
	switch weighted(t, "arbClass", 3, 2, 2, 1) {
	case 0:
		return rapid.StringMatching(`[0-9]{0,12}`).Draw(t, "arbDigits")
	case 1:
		return rapid.String().Draw(t, "arbAny")
	case 2:
		return rapid.SampledFrom([]string{"", " ", "000000", "٠٠٠٠٠٠", "１２３４５６", "123456 ", " 123456", "-12345", "+12345", "12345\x00", "0x1234"}).Draw(t, "arbFixed")
	default:
		return rapid.StringN(0, 40, 64).Draw(t, "arbLong")
	}
}

// GenPlan draws a whole plan for the given property.
func GenPlan(t *rapid.T, prop string) *Plan {
	p := &Plan{Prop: prop}
	// environment faults: memory reuse (fresh strings + collections), collections and
	// finalizers inside a call, monotonic readings that disagree with the wall clock
	p.Fresh = rapid.Bool().Draw(t, "fresh")
	if weighted(t, "gc?", 3, 1) == 1 {
		n := rapid.IntRange(1, 3).Draw(t, "nGC")
		for i := 0; i < n; i++ {
			p.GCBefore = append(p.GCBefore, rapid.IntRange(1, 120).Draw(t, "gcBefore"))
		}
	}
	if weighted(t, "gcInCall?", 5, 1) == 1 {
		n := rapid.IntRange(1, 2).Draw(t, "nGCInCall")
		for i := 0; i < n; i++ {
			p.GCInCall = append(p.GCInCall, [2]int{rapid.IntRange(1, 80).Draw(t, "gcCall"), rapid.IntRange(1, 160).Draw(t, "gcStmt")})
		}
	}
	p.MonoMode = weighted(t, "monoMode", 4, 1, 1)
	p.InnerSched = rapid.Uint64().Draw(t, "innerSched")
	fn := rapid.SampledFrom([]int{10, 20, 32, 64, 65, 80, 128, 200}).Draw(t, "familyLen")
	family = rapid.SliceOfN(rapid.Byte(), fn, fn).Draw(t, "family")
	p.BaseSec, p.BaseNsec = genBase(t)
	maxAcc := 4
	if verifh.Thorough() {
		maxAcc = 8
	}
	na := rapid.IntRange(1, maxAcc).Draw(t, "nAccounts")
	for i := 0; i < na; i++ {
		var kind string
		switch prop {
		case "C02", "C04":
			kind = "totp"
		case "C03":
			kind = "hotp"
		case "C06":
			kind = "ocra"
		default:
			kind = rapid.SampledFrom([]string{"hotp", "totp", "ocra"}).Draw(t, "kind")
		}
		p.Accounts = append(p.Accounts, genAccount(t, prop, kind))
	}
	maxEv := 40
	if verifh.Thorough() && weighted(t, "longRun?", 3, 1) == 1 {
		maxEv = 250 // thorough tier: a quarter of the runs are long histories
	}
	ne := rapid.IntRange(1, maxEv).Draw(t, "nEvents")
	for i := 0; i < ne; i++ {
		p.Events = append(p.Events, genEvent(t, prop, p.Accounts))
	}
	return p
}

func itoa(i int) string {
	if i == 0 {
		return "0"
	}
	neg := i < 0
	if neg {
		i = -i
	}
	var b [20]byte
	n := len(b)
	for i > 0 {
		n--
		b[n] = byte('0' + i%10)
		i /= 10
	}
	if neg {
		n--
		b[n] = '-'
	}
	return string(b[n:])
}
