package worldb

import (
	"container/heap"
	"encoding/base32"
	"encoding/binary"
	"fmt"
	"net/url"
	"runtime"
	"strings"
	"time"
	_ "time/tzdata"
	"unsafe"

	"github.com/ja7ad/otp"
	"github.com/ja7ad/otp/internal/verifh"
	"github.com/ja7ad/otp/internal/verifrt"
)

const (
	workCap     = 200_000 // instrumented statements per library call (a legitimate call needs < 2 000)
	nCorrupt    = 19
	nViewFault  = 6
	nMisc       = 6
	nURLCorrupt = 11
	maxSec      = int64(1) << 62
)

// ---------------------------------------------------------------------------
// instants (unix seconds up to 2^62 do not fit nanosecond int64 arithmetic)

type instant struct{ Sec, Nsec int64 }

func (a instant) addNs(d int64) instant {
	a.Sec += d / 1e9
	a.Nsec += d % 1e9
	if a.Nsec >= 1e9 {
		a.Nsec -= 1e9
		a.Sec++
	} else if a.Nsec < 0 {
		a.Nsec += 1e9
		a.Sec--
	}
	return a
}

func (a instant) addSec(s int64) instant { a.Sec += s; return a }

func mustZone(name string) *time.Location {
	l, err := time.LoadLocation(name) // time/tzdata is linked in: no dependency on the host
	if err != nil {
		panic(err)
	}
	return l
}

// presentation zones: fixed offsets and tz-database zones with daylight-saving
// transitions (repeated and skipped wall-clock hours, a 30-minute shift)
var zones = []*time.Location{
	time.UTC,
	time.FixedZone("east14", 14*3600),
	time.FixedZone("west12", -12*3600),
	time.FixedZone("odd", 5*3600+45*60+13),
	mustZone("America/New_York"),
	mustZone("Europe/Berlin"),
	mustZone("Australia/Lord_Howe"),
	mustZone("Asia/Kathmandu"),
	mustZone("America/Sao_Paulo"),
	time.Local,
}

// DSTInstants: UTC seconds of clock changes in the zones above (fall-back and
// spring-forward); the plan generator aims base instants at them +-2 h.
var DSTInstants = []int64{
	1636264800, // 2021-11-07 06:00 UTC New York falls back
	1615705200, // 2021-03-14 07:00 UTC New York springs forward
	1635642000, // 2021-10-31 01:00 UTC Berlin falls back
	1616893200, // 2021-03-28 01:00 UTC Berlin springs forward
	1617463800, // 2021-04-03 15:30 UTC Lord Howe falls back (30 min)
	1633188600, // 2021-10-02 15:30 UTC Lord Howe springs forward
	1550368800, // 2019-02-17 02:00 UTC Sao Paulo falls back
	1541300400, // 2018-11-04 03:00 UTC Sao Paulo springs forward
	1730613600, // 2024-11-03 06:00 UTC New York falls back
	1729990800, // 2024-10-27 01:00 UTC Berlin falls back
}

var monoMode int // set per run from the plan

var processNow = time.Now() // carries a monotonic reading; its value is never logged or compared

// timeLayout mirrors time.Time. It is used only to build instants whose
// monotonic reading is unrelated to their wall time (what a stepped or
// suspended wall clock produces) and is verified at start-up; if the check
// fails the feature is off.
type timeLayout struct {
	wall uint64
	ext  int64
	loc  *time.Location
}

var monoLayoutOK = func() bool {
	defer func() { _ = recover() }()
	t := time.Now()
	l := (*timeLayout)(unsafe.Pointer(&t))
	if l.wall&(1<<63) == 0 {
		return false
	}
	u := steppedTime(instant{1_700_000_123, 456}, 987654321)
	v := steppedTime(instant{1_700_000_999, 1}, 987654321+5e9)
	return u.Unix() == 1_700_000_123 && u.Nanosecond() == 456 && v.Sub(u) == 5*time.Second
}()

// steppedTime: wall clock = a, monotonic reading = mono (ns since an arbitrary origin).
func steppedTime(a instant, mono int64) time.Time {
	const wallToInternal = (1884*365 + 1884/4 - 1884/100 + 1884/400) * 86400
	const unixToInternal = (1969*365 + 1969/4 - 1969/100 + 1969/400) * 86400
	sec := a.Sec + unixToInternal - wallToInternal // seconds since 1885
	var t time.Time
	l := (*timeLayout)(unsafe.Pointer(&t))
	l.wall = 1<<63 | uint64(sec)<<30 | uint64(a.Nsec)
	l.ext = mono
	l.loc = time.Local
	return t
}

var monoTick int64 = 1 << 40

// goTime presents the instant as a time.Time in the given zone, optionally
// carrying a monotonic reading (only possible within ~±290 years of the real now).
func goTime(a instant, zone int, mono bool) time.Time {
	t := time.Unix(a.Sec, a.Nsec)
	if mono && monoMode != 0 && monoLayoutOK && a.Sec > 0 && a.Sec < 5_000_000_000 {
		// monotonic readings that disagree with the wall clock (stepped wall clock):
		// a constant reading, or one that runs backwards while the wall time moves on
		m := int64(1 << 40)
		if monoMode == 2 {
			monoTick -= 1_000_003
			m = monoTick
		}
		return steppedTime(a, m) // no In(): changing the location strips the monotonic reading
	}
	if mono {
		d := t.Sub(processNow)
		if d > -(1<<62) && d < 1<<62 {
			m := processNow.Add(d)
			if m.Unix() == a.Sec && int64(m.Nanosecond()) == a.Nsec {
				return m // carries a monotonic reading only in its original (local) location
			}
		}
	}
	return t.In(zones[zone%len(zones)])
}

// ---------------------------------------------------------------------------
// event queue

type qev struct {
	at  int64
	seq uint64
	run func()
}
type evHeap []qev

func (h evHeap) Len() int { return len(h) }
func (h evHeap) Less(i, j int) bool {
	if h[i].at != h[j].at {
		return h[i].at < h[j].at
	}
	return h[i].seq < h[j].seq
}
func (h evHeap) Swap(i, j int) { h[i], h[j] = h[j], h[i] }
func (h *evHeap) Push(x any)   { *h = append(*h, x.(qev)) }
func (h *evHeap) Pop() any {
	o := *h
	x := o[len(o)-1]
	*h = o[:len(o)-1]
	return x
}

// ---------------------------------------------------------------------------
// simulator state

type message struct {
	acct    int
	code    string
	truth   uint64 // counter / step the token used
	hasCode bool
	view    *ocraView // OCRA: the client's view the code was made for
	chalSeq int
}

type ocraView struct {
	Counter, Challenge, Password, Session, Timestamp []byte
}

type acct struct {
	Account
	idx          int
	stored       string // secret as the verifier stores it
	tokSecret    string // secret as the token stores it (always intact)
	tokCounter   uint64
	tokDurable   uint64
	pressCount   int
	verCounter   uint64
	verPrev      uint64 // counter the verifier used for its latest answer (what a restart without the stored update comes back to)
	verPrevSet   bool
	lastDeliv    message // latest submission the verifier answered
	lastDelivSet bool
	tokJumpNs    int64
	tokJumpS     int64
	sent         []message
	// ocra
	suite      otp.Suite
	suiteErr   error
	tokSuite   otp.Suite
	curChal    []byte
	chalSeq    int
	ocraVerCtr uint64
	ocraTokCtr uint64
}

type sim struct {
	lastTOTPSec    int64 // second and effective period of the latest TOTP call (for aliasing jumps)
	lastTOTPPeriod uint64
	lastTOTPSet    bool
	plan           *Plan
	prop           string
	now            int64
	seq            uint64
	q              evHeap
	accts          []*acct
	verJump        instant // accumulated verifier clock jumps (as offset)
	viol           *verifh.Violation
	nontriv        bool
	events         int
	log            []string // event log (determinism self-test)
	logOn          bool
}

func (s *sim) after(d int64, f func()) {
	if d < 0 {
		d = 0
	}
	s.seq++
	heap.Push(&s.q, qev{s.now + d, s.seq, f})
}

func (s *sim) logf(format string, args ...any) {
	if s.logOn {
		s.log = append(s.log, fmt.Sprintf("t=%d seq=%d ", s.now, s.seq)+fmt.Sprintf(format, args...))
	}
}

func (s *sim) fail(clause, op, witness, detail string) {
	if s.viol == nil {
		s.viol = &verifh.Violation{Property: s.prop, Clause: clause, Op: op, Witness: witness, Detail: detail}
	}
}

func drifted(now int64, ppm int) int64 { return now + now/1_000_000*int64(ppm) }

func (s *sim) verClock() instant {
	return instant{s.plan.BaseSec, s.plan.BaseNsec}.addNs(s.now).addSec(s.verJump.Sec).addNs(s.verJump.Nsec)
}

func (s *sim) verClockAt(at int64) instant {
	return instant{s.plan.BaseSec, s.plan.BaseNsec}.addNs(at).addSec(s.verJump.Sec).addNs(s.verJump.Nsec)
}

func (s *sim) tokClock(a *acct) instant {
	return instant{s.plan.BaseSec, s.plan.BaseNsec}.addSec(a.TokOffsetS + a.tokJumpS).addNs(a.TokOffsetNs).addNs(drifted(s.now, a.DriftPPM)).addNs(a.tokJumpNs)
}

func periodEff(p uint64) uint64 {
	if p == 0 {
		return 30
	}
	return p
}

// ---------------------------------------------------------------------------
// guarded library calls

type callResult struct {
	panicked bool
	pval     any
	tripped  bool
	meter    uint64
}

var (
	gcBefore  []int
	gcInCall  [][2]int
	callCount int
)

func guarded(f func()) (r callResult) {
	callCount++
	for _, c := range gcBefore {
		if c == callCount {
			// memory of everything the previous calls no longer reference may now be reused
			runtime.GC()
			verifh.Count("fault.gc-between-calls", 1)
		}
	}
	verifrt.ResetMeter(workCap)
	for _, g := range gcInCall {
		if g[0] == callCount {
			verifrt.SetGCAt(uint64(g[1]))
		}
	}
	defer func() {
		r.meter = verifrt.Meter()
		if p := recover(); p != nil {
			if _, ok := p.(verifrt.WorkCapTrip); ok {
				r.tripped = true
			} else if d, ok := p.(verifrt.Deadlock); ok && d.PollingSelect {
				// may be the simulator's (two selects facing each other on an unbuffered channel): no verdict
				verifh.HarnessError("%v", d)
				r.tripped = true
			} else {
				r.panicked, r.pval = true, p
			}
		}
		verifrt.SetGCAt(0)
		verifrt.ResetMeter(0)
	}()
	f()
	return
}

// fresh returns a newly allocated copy of s when the plan asks for it: the
// library then never sees the same string memory twice, and what it saw may be
// collected and reused.
var freshStrings bool

func fresh(s string) string {
	if !freshStrings {
		return s
	}
	return strings.Clone(s)
}

func spell(secret []byte, spelling int) string {
	std := base32.StdEncoding.EncodeToString(secret)
	nopad := strings.TrimRight(std, "=")
	switch spelling {
	case 0:
		return std
	case 1:
		return nopad
	case 2:
		return strings.ToLower(nopad)
	case 3:
		b := []byte(nopad)
		for i := range b {
			if i%2 == 1 && b[i] >= 'A' && b[i] <= 'Z' {
				b[i] += 'a' - 'A'
			}
		}
		return string(b)
	case 4:
		return " \t" + nopad + "\n"
	default:
		return "  " + strings.ToLower(std) + " "
	}
}

func damage(stored string, kind int) string {
	switch kind {
	case 1:
		return stored + "!"
	case 2:
		return "1" + stored
	case 3:
		if len(stored) >= 2 {
			return stored[:1] + "=" + stored[1:] + "A" // padding in the middle
		}
		return "=" + stored + "A"
	case 4:
		return stored + "8"
	case 5: // legal characters, but a length no base32 text can have (one stray legal character)
		return stored + "A"
	case 6: // one character lost
		if len(stored) > 0 {
			return stored[:len(stored)-1]
		}
		return "A"
	case 7:
		if len(stored) > 2 {
			return stored[:len(stored)-2]
		}
		return "AAA"
	default: // three legal characters: always an impossible length class for canonical input
		return strings.TrimRight(stored, "= \t\n") + "AAA"
	}
}

func (a *acct) verParam() *otp.Param {
	if a.NilParam {
		return nil
	}
	return &otp.Param{Digits: otp.Digits(a.Digits), Algorithm: otp.Algorithm(a.Algo), Period: uint(a.Period), Skew: uint(a.Skew)}
}

// effective verifier configuration (what nil stands for according to the property)
func (a *acct) verEff() (digits int, algo int, skew uint64, period uint64) {
	if a.NilParam {
		if a.Kind == "hotp" {
			return 6, 0, 2, 0
		}
		return 6, 0, 0, 30
	}
	return a.Digits, a.Algo, a.Skew, periodEff(a.Period)
}

// refSecret: the spelling the reference computations use. The verifier's copy
// is by construction the same secret as the token's unless it was damaged on
// purpose; the reference then uses the token's spelling, so that a verifier-side
// spelling the library can no longer read shows as a rejected valid code.
func (a *acct) refSecret() string {
	if a.BadStore == 0 {
		return a.tokSecret
	}
	return a.stored
}

func (a *acct) tokParam() *otp.Param {
	if a.NilParam && a.TokDigits == 0 && a.TokAlgo == 0 {
		return nil
	}
	d, al, _, _ := a.verEff()
	if a.TokDigits != 0 {
		d = a.TokDigits
	}
	if a.TokAlgo != 0 {
		al = a.TokAlgo - 1
	}
	return &otp.Param{Digits: otp.Digits(d), Algorithm: otp.Algorithm(al), Period: uint(a.Period)}
}

// refHOTP calls the library's generator alone; ok=false when it fails or panics.
func refHOTP(secret string, c uint64, digits, algo int) (string, bool) {
	var code string
	var err error
	r := guarded(func() {
		code, err = otp.GenerateHOTP(fresh(secret), c, &otp.Param{Digits: otp.Digits(digits), Algorithm: otp.Algorithm(algo)})
	})
	if r.panicked || r.tripped || err != nil {
		return "", false
	}
	return code, true
}

// windowSet builds the admissible set with the library's own generator.
// refFail reports that at least one reference generation failed.
func windowSet(secret string, lo, hi uint64, digits, algo int) (set map[string]uint64, refFail bool) {
	set = map[string]uint64{}
	for c := lo; ; c++ {
		code, ok := refHOTP(secret, c, digits, algo)
		if ok {
			if _, dup := set[code]; !dup {
				set[code] = c
			}
		} else {
			refFail = true
		}
		if c == hi {
			break
		}
	}
	return
}

// ---------------------------------------------------------------------------
// transport

func corruptCode(code string, kind, arg int) string {
	b := []byte(code)
	switch kind {
	case 0:
		return code
	case 1: // one character changed to another digit
		if len(b) == 0 {
			return "7"
		}
		i := arg % len(b)
		nb := byte('0' + (int(b[i]-'0')+1+arg%9)%10)
		if nb == b[i] {
			nb = byte('0' + (int(nb-'0')+1)%10)
		}
		b[i] = nb
		return string(b)
	case 2: // one character changed to a non-digit
		if len(b) == 0 {
			return "x"
		}
		b[arg%len(b)] = []byte("aZ /:-\x00\xff")[arg%8]
		return string(b)
	case 3: // truncated at the end
		if len(b) == 0 {
			return ""
		}
		k := 1 + arg%2
		if k > len(b) {
			k = len(b)
		}
		return string(b[:len(b)-k])
	case 4: // truncated at the front
		if len(b) == 0 {
			return ""
		}
		return string(b[1:])
	case 5: // extended at the end
		return code + string(rune('0'+arg%10))
	case 6: // extended at the front
		return string(rune('0'+arg%10)) + code
	case 7:
		return " " + code
	case 8:
		return code + []string{" ", "\n", "\t", "\r\n"}[arg%4]
	case 9: // ASCII digit -> Unicode digit
		if len(b) == 0 {
			return "٠"
		}
		i := arg % len(b)
		d := rune(b[i] - '0')
		var r rune
		if arg%2 == 0 {
			r = 0x0660 + d // arabic-indic
		} else {
			r = 0xFF10 + d // fullwidth
		}
		return string(b[:i]) + string(r) + string(b[i+1:])
	case 10:
		return ""
	case 11: // same length, all zeros / all nines
		if arg%2 == 0 {
			return strings.Repeat("0", len(b))
		}
		return strings.Repeat("9", len(b))
	case 12: // swap two adjacent characters
		if len(b) < 2 {
			return code + code
		}
		i := arg % (len(b) - 1)
		b[i], b[i+1] = b[i+1], b[i]
		return string(b)
	case 13: // same length, numerically equal, textually different: sign / blank instead of a leading zero
		if len(b) >= 2 && b[0] == '0' {
			b[0] = []byte("+- \t")[arg%4]
			if b[0] == '-' {
				// "-0..0" only equals the code when the code is all zeros; otherwise use '+'
				allZero := true
				for _, c := range b[1:] {
					if c != '0' {
						allZero = false
					}
				}
				if !allZero {
					b[0] = '+'
				}
			}
			return string(b)
		}
		if len(b) >= 1 {
			b[0] = '+'
		}
		return string(b)
	case 14: // digits from other scripts / numeric look-alikes for the whole code
		var sb strings.Builder
		for _, c := range b {
			if c >= '0' && c <= '9' {
				if arg%2 == 0 {
					sb.WriteRune(0x0660 + rune(c-'0'))
				} else {
					sb.WriteRune(0xFF10 + rune(c-'0'))
				}
			} else {
				sb.WriteByte(c)
			}
		}
		return sb.String()
	case 15: // trailing characters a lenient number parser skips: same prefix, longer
		return code + []string{"_", "e0", ".0", "\x00"}[arg%4]
	case 16: // "borrow"/"carry" edit: equal under naive positional parsing (sum of (c-'0')*10^k), different bytes
		if len(b) < 2 {
			return code + "0"
		}
		for k := 0; k < len(b)-1; k++ {
			i := (arg + k) % (len(b) - 1)
			if arg%2 == 0 && b[i] >= '1' && b[i] <= '9' && b[i+1] >= '0' && b[i+1] <= '9' {
				b[i]--
				b[i+1] += 10 // ':' .. 'C'
				return string(b)
			}
			if arg%2 == 1 && b[i] >= '0' && b[i] <= '8' && b[i+1] >= '0' && b[i+1] <= '9' {
				b[i]++
				b[i+1] -= 10 // '&' .. '/'
				return string(b)
			}
		}
		b[0] = ':'
		return string(b)
	case 17: // same value modulo 2^32 (or 2^31), still the same number of digits
		var v uint64
		for _, c := range b {
			if c < '0' || c > '9' {
				return code + "1"
			}
			v = v*10 + uint64(c-'0')
		}
		add := uint64(1) << 32
		if arg%2 == 1 {
			add = 1 << 31
		}
		w := fmt.Sprintf("%0*d", len(b), v+add)
		if len(w) != len(b) {
			w = fmt.Sprintf("%0*d", len(b), (v+add)%pow10(len(b)))
		}
		return w
	case 19: // the code followed (or preceded) by exactly as many bytes as make a narrow length counter wrap
		n := []int{255, 256, 257, 512, 65535, 65536, 65537, 768}[arg%8]
		pad := strings.Repeat(string(rune('0'+arg%10)), n)
		if arg%3 == 0 {
			return pad + code
		}
		return code + pad
	default: // upper/lower-case hex or octal spellings of the same number
		var v uint64
		for _, c := range b {
			if c < '0' || c > '9' {
				return "0x" + code
			}
			v = v*10 + uint64(c-'0')
		}
		w := fmt.Sprintf("%#x", v)
		if arg%2 == 1 {
			w = fmt.Sprintf("%#o", v)
		}
		for len(w) < len(b) {
			w = " " + w
		}
		return w
	}
}

func pow10(n int) uint64 {
	p := uint64(1)
	for i := 0; i < n && i < 19; i++ {
		p *= 10
	}
	return p
}

func (s *sim) send(n Net, m message, deliver func(message)) {
	if n.Corrupt != 0 && m.hasCode {
		m.code = corruptCode(m.code, n.Corrupt, n.CArg)
		verifh.Count(fmt.Sprintf("fault.corrupt.%02d", n.Corrupt), 1)
	}
	if n.Drop {
		verifh.Count("fault.drop", 1)
		s.logf("drop acct=%d", m.acct)
	} else {
		if n.DelayNs > 1e9 {
			verifh.Count("fault.delay>1s", 1)
		}
		s.after(n.DelayNs, func() { deliver(m) })
	}
	if n.Dup {
		verifh.Count("fault.dup", 1)
		s.after(n.DelayNs+n.DupDelayNs, func() { deliver(m) })
	}
}

// ---------------------------------------------------------------------------
// HOTP

func (s *sim) hotpPress(a *acct, e *Event) {
	if e.Aimed {
		// fault injector: lose submissions / roll the token back until the
		// token is Aim ahead of the verifier when this code is made
		want := a.verCounter + uint64(int64(e.Aim))
		if e.Aim < 0 && a.verCounter < uint64(-int64(e.Aim)) {
			want = 0
		}
		if e.Aim > 0 && want < a.verCounter {
			want = ^uint64(0)
		}
		if want != a.tokCounter {
			if want > a.tokCounter {
				verifh.Count("fault.lost-submissions(aimed)", 1)
			} else {
				verifh.Count("fault.token-rollback(aimed)", 1)
			}
			a.tokCounter = want
		}
	}
	c := a.tokCounter
	var code string
	var err error
	r := guarded(func() { code, err = otp.GenerateHOTP(fresh(a.tokSecret), c, a.tokParam()) })
	if s.prop == "C03" && a.tokParam() == nil {
		// "absent parameters mean 6 digits, SHA-1": a token built on nil parameters
		// must get exactly what the spelled-out defaults give
		if want, ok := refHOTP(a.tokSecret, c, 6, 0); ok {
			verifh.Count("oracle.nil-param-generation==explicit-defaults", 1)
			switch {
			case r.panicked:
				s.fail("absent-params==defaults", "GenerateHOTP", "panics-with-nil-param", fmt.Sprintf("GenerateHOTP(counter=%d, nil) panicked: %v; with &Param{Digits: 6, Algorithm: SHA1} it returns %q", c, r.pval, want))
				return
			case !r.tripped && err != nil:
				s.fail("absent-params==defaults", "GenerateHOTP", "fails-with-nil-param", fmt.Sprintf("GenerateHOTP(counter=%d, nil) = error %v; with &Param{Digits: 6, Algorithm: SHA1} it returns %q", c, err, want))
				return
			case !r.tripped && code != want:
				s.fail("absent-params==defaults", "GenerateHOTP", "differs-with-nil-param", fmt.Sprintf("GenerateHOTP(counter=%d, nil) = %q; with &Param{Digits: 6, Algorithm: SHA1} it returns %q", c, code, want))
				return
			}
		}
	}
	a.tokCounter++ // wraps at 2^64 like a real token would
	a.pressCount++
	if a.pressCount%a.PersistEvery == 0 {
		a.tokDurable = a.tokCounter
	}
	if r.panicked || r.tripped || err != nil {
		verifh.Count("token.generate-failed", 1)
		code = "000000"
	}
	m := message{acct: a.idx, code: code, truth: c, hasCode: true}
	a.sent = append(a.sent, m)
	s.logf("hotp press acct=%d c=%d code=%q", a.idx, c, code)
	if e.Kind == "press" {
		s.send(e.Net, m, func(m message) { s.hotpDeliver(a, m) })
	}
}

func (s *sim) hotpDeliver(a *acct, m message) {
	c := a.verCounter
	a.verPrev, a.verPrevSet = c, true
	a.lastDeliv, a.lastDelivSet = m, true
	digits, algo, skew, _ := a.verEff()
	var ok bool
	var err error
	r := guarded(func() { ok, err = otp.ValidateHOTP(fresh(a.stored), fresh(m.code), c, a.verParam()) })
	s.logf("hotp deliver acct=%d c=%d truth=%d code=%q -> %v %v", a.idx, c, m.truth, m.code, ok, err)
	s.events++
	dist := int64(m.truth - c)
	distClamp := dist
	if distClamp > 14 {
		distClamp = 14
	} else if distClamp < -14 {
		distClamp = -14
	}
	cclass := 0
	switch {
	case c >= 1<<63:
		cclass = 3
	case c >= 1<<32:
		cclass = 2
	case c >= 1<<31:
		cclass = 1
	}
	verifh.Distinct(verifh.Hash64("hotp", digits, algo, skew, distClamp, m.code == a.lastSentCode(m), ok, err != nil, cclass, a.BadStore, a.NilParam))

	s.judgeVerdict("ValidateHOTP", r, ok, err, a, m.code, func() (map[string]uint64, bool, bool, string) {
		if skew > 10 {
			return nil, true, false, "skew>10"
		}
		if c+skew < c {
			verifh.Count("skip.window-overflows-2^64", 1)
			return nil, false, true, ""
		}
		lo := uint64(0)
		if c > skew {
			lo = c - skew
		}
		if c >= 1<<63 {
			verifh.Count("probe.hotp.counter>=2^63", 1)
		}
		if c < skew {
			verifh.Count("probe.hotp.window-clipped-at-0", 1)
		}
		set, refFail := windowSet(a.refSecret(), lo, c+skew, digits, algo)
		if refFail {
			verifh.Count("ref.generation-failed(window empty or partial)", 1)
		}
		switch {
		case dist == int64(skew) || dist == -int64(skew):
			verifh.Count("probe.distance==s", 1)
		case dist == int64(skew)+1 || dist == -int64(skew)-1:
			verifh.Count("probe.distance==s+1", 1)
		}
		return set, false, false, fmt.Sprintf("c=%d s=%d digits=%d algo=%d window=[%d,%d] token-counter=%d", c, skew, digits, algo, lo, c+skew, m.truth)
	})

	if ok && err == nil && skew <= 10 {
		// verifier resynchronises to the matched counter + 1 (harness logic)
		lo := uint64(0)
		if c > skew {
			lo = c - skew
		}
		if c+skew >= c {
			set, _ := windowSet(a.refSecret(), lo, c+skew, digits, algo)
			if mc, in := set[m.code]; in && mc != ^uint64(0) {
				a.verCounter = mc + 1
				verifh.Count("verifier.accept+resync", 1)
			}
		}
	}
}

func (a *acct) lastSentCode(m message) string {
	if len(a.sent) == 0 {
		return ""
	}
	for i := len(a.sent) - 1; i >= 0; i-- {
		if a.sent[i].truth == m.truth {
			return a.sent[i].code
		}
	}
	return ""
}

// judgeVerdict evaluates the oracles of C03/C04 (window membership) and C13
// (verdict shape, leaks) for one verifier call. build() returns the admissible
// set, whether the call must be refused, whether the case is out of domain, and
// a description.
func (s *sim) judgeVerdict(op string, r callResult, ok bool, err error, a *acct, submitted string, build func() (map[string]uint64, bool, bool, string)) {
	windowProp := (s.prop == "C03" && op == "ValidateHOTP") || (s.prop == "C04" && op == "ValidateTOTP")
	if r.tripped {
		if windowProp {
			_, mustRefuse, _, _ := build()
			w := "work-cap"
			if mustRefuse {
				w = "work-cap-on-refusable-skew"
			}
			s.fail("bounded-work", op, w, fmt.Sprintf("%s executed more than %d instrumented statements (skew=%d): work is not bounded", op, workCap, a.Skew))
		}
		return
	}
	if r.panicked {
		if windowProp {
			s.fail("no-panic", op, "panic", fmt.Sprintf("%s panicked: %v (submitted %q)", op, r.pval, submitted))
		} else {
			verifh.Count("skip.call-panicked(not judged by this property)", 1)
		}
		return
	}
	s.nontriv = true
	if s.prop == "C13" {
		if ok && err != nil {
			s.fail("verdict-shape", op, "true-with-error", fmt.Sprintf("%s returned (true, %v)", op, err))
			return
		}
		if !ok && err == nil {
			s.fail("verdict-shape", op, "false-without-error", fmt.Sprintf("%s returned (false, nil) for %q", op, submitted))
			return
		}
		if ok {
			verifh.Count("verdict.accept", 1)
		} else {
			verifh.Count("verdict.reject:"+classifyErr(err), 1)
		}
	}
	if !windowProp && s.prop != "C13" {
		return
	}
	set, mustRefuse, skip, desc := build()
	if skip {
		return
	}
	if s.prop == "C13" {
		if err != nil {
			s.checkLeak(op, err, a, set)
		}
		return
	}
	if mustRefuse {
		verifh.Count("probe.refused-skew", 1)
		if ok || err == nil {
			s.fail("refuse-skew>10", op, "skew>10-not-refused", fmt.Sprintf("%s with skew %d returned (%v, %v); must be (false, error)", op, a.Skew, ok, err))
		}
		return
	}
	_, in := set[submitted]
	if in {
		verifh.Count("oracle.in-window", 1)
	} else {
		verifh.Count("oracle.outside-window", 1)
	}
	if ok != in {
		witness := "accepts-outside-window"
		if in {
			witness = "rejects-inside-window"
		}
		s.fail("window-membership", op, witness, fmt.Sprintf("%s(%q) = (%v, %v) but membership in the admissible set is %v; %s; matched=%v", op, submitted, ok, err, in, desc, set[submitted]))
	}
}

func classifyErr(err error) string {
	switch err {
	case otp.ErrInvalidCode:
		return "invalid-code"
	case otp.ErrInvalidCodeLength:
		return "code-length"
	case otp.ErrInvalidSkew:
		return "skew"
	case otp.ErrUnsupportedAlgorithm:
		return "algorithm"
	case otp.ErrInvalidRawSuite:
		return "suite"
	}
	m := err.Error()
	switch {
	case strings.Contains(m, "base32"):
		return "secret-undecodable"
	case strings.Contains(m, "challenge"), strings.Contains(m, "counter"), strings.Contains(m, "timestamp"), strings.Contains(m, "password"), strings.Contains(m, "session"):
		return "inadmissible-input"
	case strings.Contains(m, "digit"), strings.Contains(m, "hash"), strings.Contains(m, "suite"), strings.Contains(m, "time step"):
		return "invalid-suite"
	}
	return "other"
}

// checkLeak: C13 disclosure clause, confirmed differentially.
func (s *sim) checkLeak(op string, err error, a *acct, set map[string]uint64) {
	msg := err.Error()
	verifh.Count("leak.error-strings-examined", 1)
	// secret in any spelling
	if len(a.Secret) >= 5 {
		cands := []string{a.stored, a.tokSecret, strings.TrimSpace(a.stored), string(a.Secret)}
		for sp := 0; sp <= 5; sp++ {
			cands = append(cands, strings.TrimSpace(spell(a.Secret, sp)))
		}
		for _, c := range cands {
			if len(c) >= 8 || (len(c) >= 5 && c == string(a.Secret)) {
				if strings.Contains(msg, c) {
					s.fail("no-leak", op, "secret-in-error", fmt.Sprintf("%s error %q contains the secret", op, msg))
					return
				}
			}
		}
	}
	for code := range set {
		if len(code) >= 6 && strings.Contains(msg, code) {
			s.fail("no-leak", op, "expected-code-in-error", fmt.Sprintf("%s error %q contains the acceptable code %q", op, msg, code))
			return
		}
	}
}

// ---------------------------------------------------------------------------
// TOTP

func (s *sim) totpAim(a *acct, e *Event, deliverAt int64) {
	// clock-jump fault: put the token clock Aim steps away from where the
	// verifier clock will be when the message arrives
	p := periodEff(a.Period)
	v := s.verClockAt(deliverAt)
	if v.Sec < 0 {
		return
	}
	vstep := uint64(v.Sec) / p
	var tstep uint64
	if e.Aim < 0 {
		if vstep < uint64(-e.Aim) {
			return
		}
		tstep = vstep - uint64(-e.Aim)
	} else {
		tstep = vstep + uint64(e.Aim)
	}
	ph := e.PhaseS % p
	if tstep > uint64(maxSec)/p {
		return
	}
	target := instant{int64(tstep*p + ph), e.PhaseNs}
	if target.Sec >= maxSec || target.Sec < 0 {
		return
	}
	cur := s.tokClock(a)
	a.tokJumpS += target.Sec - cur.Sec
	a.tokJumpNs += target.Nsec - cur.Nsec
	verifh.Count("fault.clock-jump(aimed)", 1)
}

// totpAlias moves the token clock to an instant that shares its low bits with
// the second of the previous TOTP call while the bits above carry that call's
// period, this account's period, their XOR or a small number: the instants a
// truncating, folding or XOR-combining key of (second, period) cannot tell
// apart from the previous call.
func (s *sim) totpAlias(a *acct, e *Event) {
	if e.Alias <= 0 || !s.lastTOTPSet {
		return
	}
	bits := []uint{32, 32, 32, 16, 24, 40, 48}[e.Alias%7]
	sel := (e.Alias / 7) % 5
	p := periodEff(a.Period)
	var hi uint64
	switch sel {
	case 0:
		hi = s.lastTOTPPeriod
	case 1:
		hi = p
	case 2:
		hi = s.lastTOTPPeriod ^ p
	case 3:
		hi = uint64(1 + (e.Alias/35)%64)
	default:
		hi = uint64(s.lastTOTPSec)>>bits + uint64(1+(e.Alias/35)%8)
	}
	var target uint64
	if (e.Alias/280)%2 == 0 {
		target = uint64(s.lastTOTPSec)&(1<<bits-1) | hi<<bits
	} else {
		target = uint64(s.lastTOTPSec) ^ hi<<bits
	}
	if target >= uint64(maxSec) || hi<<bits>>bits != hi {
		return
	}
	cur := s.tokClock(a)
	a.tokJumpS += int64(target) - cur.Sec
	verifh.Count("fault.clock-jump-to-aliasing-instant", 1)
}

func (s *sim) noteTOTP(sec int64, period uint64) {
	s.lastTOTPSec, s.lastTOTPPeriod, s.lastTOTPSet = sec, period, true
}

func (s *sim) totpPress(a *acct, e *Event) {
	if e.Aimed {
		s.totpAim(a, e, s.now+e.Net.DelayNs)
	}
	s.totpAlias(a, e)
	tc := s.tokClock(a)
	if tc.Sec < 0 || tc.Sec >= maxSec {
		verifh.Count("skip.token-clock-out-of-domain", 1)
		return
	}
	var code string
	var err error
	tp := a.tokParam()
	if tp != nil && tp.Period == 0 {
		// a token built with this library and period 0 relies on "0 means 30" (C02);
		// for the window properties the token side is environment, so spell it out
		if s.prop != "C02" {
			cp := *tp
			cp.Period = 30
			tp = &cp
		}
	}
	r := guarded(func() { code, err = otp.GenerateTOTP(fresh(a.tokSecret), goTime(tc, a.Zone, a.Mono), tp) })
	s.noteTOTP(tc.Sec, periodEff(a.Period))
	if s.prop == "C04" && tp == nil {
		// "absent parameters mean 6 digits, SHA-1, 30 s": nil parameters on the token side
		// (the reference is the same function with the defaults spelled out, not HOTP at
		// the step: whether TOTP equals HOTP at the step is C02's business, not C04's)
		var want string
		var werr error
		rw := guarded(func() {
			want, werr = otp.GenerateTOTP(fresh(a.tokSecret), goTime(tc, a.Zone, a.Mono), &otp.Param{Digits: 6, Algorithm: otp.SHA1, Period: 30})
		})
		if ok := !rw.panicked && !rw.tripped && werr == nil; ok {
			verifh.Count("oracle.nil-param-generation==explicit-defaults", 1)
			switch {
			case r.panicked:
				s.fail("absent-params==defaults", "GenerateTOTP", "panics-with-nil-param", fmt.Sprintf("GenerateTOTP(t=%d, nil) panicked: %v; with &Param{Digits: 6, Algorithm: SHA1, Period: 30} it returns %q", tc.Sec, r.pval, want))
				return
			case !r.tripped && err != nil:
				s.fail("absent-params==defaults", "GenerateTOTP", "fails-with-nil-param", fmt.Sprintf("GenerateTOTP(t=%d, nil) = error %v; with &Param{Digits: 6, Algorithm: SHA1, Period: 30} it returns %q", tc.Sec, err, want))
				return
			case !r.tripped && code != want:
				s.fail("absent-params==defaults", "GenerateTOTP", "differs-with-nil-param", fmt.Sprintf("GenerateTOTP(t=%d, nil) = %q; with &Param{Digits: 6, Algorithm: SHA1, Period: 30} it returns %q", tc.Sec, code, want))
				return
			}
		}
	}
	step := uint64(tc.Sec) / periodEff(a.Period)
	if r.panicked || r.tripped || err != nil {
		verifh.Count("token.generate-failed", 1)
		code = "000000"
	}
	m := message{acct: a.idx, code: code, truth: step, hasCode: true}
	a.sent = append(a.sent, m)
	s.logf("totp press acct=%d tok=%d.%09d step=%d code=%q", a.idx, tc.Sec, tc.Nsec, step, code)
	s.send(e.Net, m, func(m message) { s.totpDeliver(a, m) })
}

func (s *sim) totpDeliver(a *acct, m message) {
	a.lastDeliv, a.lastDelivSet = m, true
	vc := s.verClock()
	if vc.Sec < 0 || vc.Sec >= maxSec {
		verifh.Count("skip.verifier-clock-out-of-domain", 1)
		return
	}
	digits, algo, skew, p := a.verEff()
	n := uint64(vc.Sec) / p
	var ok bool
	var err error
	tv := goTime(vc, a.Zone+1, a.Mono)
	r := guarded(func() { ok, err = otp.ValidateTOTP(fresh(a.stored), fresh(m.code), tv, a.verParam()) })
	s.noteTOTP(vc.Sec, p)
	s.logf("totp deliver acct=%d ver=%d.%09d n=%d truth=%d code=%q -> %v %v", a.idx, vc.Sec, vc.Nsec, n, m.truth, m.code, ok, err)
	s.events++
	dist := int64(m.truth - n)
	dc := dist
	if dc > 14 {
		dc = 14
	} else if dc < -14 {
		dc = -14
	}
	pclass := 0
	switch {
	case a.Period == 0:
		pclass = 0
	case p == 1:
		pclass = 1
	case p == 30:
		pclass = 2
	case p < 3600:
		pclass = 3
	default:
		pclass = 4
	}
	verifh.Distinct(verifh.Hash64("totp", digits, algo, skew, dc, pclass, ok, err != nil, a.BadStore, a.NilParam, uint64(vc.Sec)%p == 0, uint64(vc.Sec)%p == p-1))

	s.judgeVerdict("ValidateTOTP", r, ok, err, a, m.code, func() (map[string]uint64, bool, bool, string) {
		if skew > 10 {
			return nil, true, false, "skew>10"
		}
		if n < skew {
			verifh.Count("skip.window-below-step-0", 1)
			return nil, false, true, ""
		}
		if uint64(vc.Sec)%p == 0 || uint64(vc.Sec)%p == p-1 {
			verifh.Count("probe.totp.verifier-at-step-edge", 1)
		}
		switch {
		case dist == int64(skew) || dist == -int64(skew):
			verifh.Count("probe.distance==s", 1)
		case dist == int64(skew)+1 || dist == -int64(skew)-1:
			verifh.Count("probe.distance==s+1", 1)
		}
		set, refFail := windowSet(a.refSecret(), n-skew, n+skew, digits, algo)
		if refFail {
			verifh.Count("ref.generation-failed(window empty or partial)", 1)
		}
		return set, false, false, fmt.Sprintf("t=%d.%09d period=%d n=%d s=%d digits=%d algo=%d token-step=%d", vc.Sec, vc.Nsec, a.Period, n, skew, digits, algo, m.truth)
	})
}

// prevCode: the code of the step before n (or after, at step 0), via the library called alone.
func prevCode(secret string, n uint64, digits, algo int) string {
	m := n + 1
	if n > 0 {
		m = n - 1
	}
	c, _ := refHOTP(secret, m, digits, algo)
	return c
}

var boundaryOffsNs = []int64{-2e9, -1e9, -1, 0, 1, 1e9, 2e9}

// totpDisplay: C02 – what the token shows at an instant.
// totpParity: where no HOTP code exists for a secret / hash (generation
// returns an error), there is no TOTP code either.
func (s *sim) totpParity(a *acct, secret string, n uint64, digits, algo int, tc instant) {
	var herr, terr error
	var got string
	rh := guarded(func() {
		_, herr = otp.GenerateHOTP(fresh(secret), n, &otp.Param{Digits: otp.Digits(digits), Algorithm: otp.Algorithm(algo)})
	})
	if rh.panicked || rh.tripped || herr == nil {
		return
	}
	param := a.verParam()
	if param == nil {
		return
	}
	rt := guarded(func() { got, terr = otp.GenerateTOTP(fresh(secret), goTime(tc, a.Zone, a.Mono), param) })
	verifh.Count("oracle.totp-must-fail-where-hotp-fails", 1)
	if !rt.panicked && !rt.tripped && terr == nil {
		s.nontriv = true
		s.fail("totp==hotp(floor(t/p))", "GenerateTOTP", "code-where-hotp-fails", fmt.Sprintf("GenerateHOTP(counter=%d) fails (%v) but GenerateTOTP(t=%d, period=%d) returns %q for the same secret and parameters", n, herr, tc.Sec, a.Period, got))
	}
}

func (s *sim) totpDisplay(a *acct, e *Event) {
	p := periodEff(a.Period)
	if e.Aimed {
		// clock jump onto a step boundary +- offset
		cur := s.tokClock(a)
		if cur.Sec >= 0 {
			step := uint64(cur.Sec)/p + uint64(e.Aim+14)
			if step <= uint64(maxSec)/p-2 {
				target := instant{int64(step * p), 0}.addNs(boundaryOffsNs[e.N%len(boundaryOffsNs)])
				if target.Sec >= 0 && target.Sec < maxSec {
					a.tokJumpS += target.Sec - cur.Sec
					a.tokJumpNs += target.Nsec - cur.Nsec
					verifh.Count("fault.clock-jump-to-boundary", 1)
				}
			}
		}
	}
	s.totpAlias(a, e)
	tc := s.tokClock(a)
	if tc.Sec < 0 || tc.Sec >= maxSec {
		verifh.Count("skip.token-clock-out-of-domain", 1)
		return
	}
	n := uint64(tc.Sec) / p
	digits, algo, _, _ := a.verEff()
	want, okRef := refHOTP(a.tokSecret, n, digits, algo)
	if !okRef {
		verifh.Count("ref.generation-failed", 1)
		s.totpParity(a, a.tokSecret, n, digits, algo, tc)
		return
	}
	s.events++
	if a.stored != a.tokSecret {
		s.totpParity(a, a.stored, n, digits, algo, tc)
	}
	param := a.verParam()
	if param != nil {
		param.Skew = 0
	}
	if uint64(tc.Sec)%p == 0 {
		verifh.Count("probe.display-at-boundary-second", 1)
	}
	if uint64(tc.Sec)%p == p-1 {
		verifh.Count("probe.display-at-last-second-of-step", 1)
	}
	verifh.Distinct(verifh.Hash64("display", digits, algo, a.Period, uint64(tc.Sec)%p == 0, uint64(tc.Sec)%p == p-1, tc.Nsec == 0, tc.Nsec == 999_999_999, a.NilParam, n == 0, tc.Sec > 1<<40))
	// the same instant presented in every way the property quantifies over
	variants := []struct {
		name string
		t    time.Time
	}{
		{"as-is", goTime(tc, a.Zone, a.Mono)},
		{"other-zone", goTime(tc, a.Zone+1, a.Mono)},
		{"mono-flipped", goTime(tc, a.Zone, !a.Mono)},
		{"nsec=0", goTime(instant{tc.Sec, 0}, a.Zone+2, a.Mono)},
		{"nsec=999999999", goTime(instant{tc.Sec, 999_999_999}, a.Zone+3, !a.Mono)},
	}
	for _, v := range variants {
		var got string
		var err error
		r := guarded(func() { got, err = otp.GenerateTOTP(fresh(a.tokSecret), v.t, param) })
		s.noteTOTP(tc.Sec, p)
		s.logf("display acct=%d t=%d.%09d %s n=%d -> %q %v", a.idx, tc.Sec, tc.Nsec, v.name, n, got, err)
		if r.tripped {
			s.fail("bounded-work", "GenerateTOTP", "work-cap", "GenerateTOTP exceeded the work cap")
			return
		}
		if r.panicked {
			w := "panic"
			if a.Period == 0 && !a.NilParam {
				w = "panic-period-0"
			}
			s.fail("no-panic", "GenerateTOTP", w, fmt.Sprintf("GenerateTOTP panicked: %v (t=%d.%09d period=%d nil-param=%v)", r.pval, tc.Sec, tc.Nsec, a.Period, a.NilParam))
			return
		}
		s.nontriv = true
		if err != nil {
			s.fail("totp==hotp(floor(t/p))", "GenerateTOTP", "error", fmt.Sprintf("GenerateTOTP failed (%v) where GenerateHOTP succeeds", err))
			return
		}
		if got != want {
			s.fail("totp==hotp(floor(t/p))", "GenerateTOTP", "differs:"+v.name, fmt.Sprintf("GenerateTOTP(t=%d.%09d [%s], period=%d, nil-param=%v) = %q, GenerateHOTP(counter=%d) = %q", tc.Sec, tc.Nsec, v.name, a.Period, a.NilParam, got, n, want))
			return
		}
	}
	// generation and validation resolve defaults identically
	if a.Period == 0 || a.Period == 30 || a.NilParam {
		vps := []*otp.Param{param, {Digits: otp.Digits(digits), Algorithm: otp.Algorithm(algo), Period: 30}, {Digits: otp.Digits(digits), Algorithm: otp.Algorithm(algo), Period: 0}}
		if digits == 6 && algo == 0 {
			vps = append(vps, nil)
		}
		// Judged is only whether the spellings of "default" agree with one another
		// (period 0 / nil / explicit 30, at a step boundary and inside a step, for
		// the code of this step and of the neighbouring one): whether validation
		// accepts the right codes at all is C04's business, not C02's.
		for _, code := range []string{want, prevCode(a.tokSecret, n, digits, algo)} {
			first := true
			var ref bool
			for i, vp := range vps {
				var ok bool
				var err error
				r := guarded(func() { ok, err = otp.ValidateTOTP(a.tokSecret, code, goTime(tc, a.Zone, a.Mono), vp) })
				if r.tripped {
					continue
				}
				if r.panicked {
					s.fail("defaults-consistent", "ValidateTOTP", fmt.Sprintf("default-period-panic:%d", i), fmt.Sprintf("ValidateTOTP panicked with param variant %d (%+v): %v", i, vp, r.pval))
					return
				}
				if first {
					ref, first = ok, false
					continue
				}
				if ok != ref {
					s.fail("defaults-consistent", "ValidateTOTP", fmt.Sprintf("default-period-mismatch:%d", i), fmt.Sprintf("at t=%d code %q: ValidateTOTP says %v with param variant 0 (%+v) but %v with variant %d (%+v) (err %v): the spellings of the default period do not mean the same", tc.Sec, code, ref, vps[0], ok, i, vp, err))
					return
				}
			}
		}
		verifh.Count("probe.defaults-crosscheck", 1)
		var u *url.URL
		var uerr error
		r := guarded(func() {
			u, uerr = otp.GenerateTOTPURL(otp.URLParam{Issuer: "i", AccountName: "a", Secret: "GEZDGNBV", Period: 0})
		})
		if !r.panicked && uerr == nil && u != nil {
			if got := u.Query().Get("period"); got != "30" {
				s.fail("defaults-consistent", "GenerateTOTPURL", "url-period-default", fmt.Sprintf("provisioning URL for period 0 carries period=%q, want 30", got))
			}
		}
	}
}

// ---------------------------------------------------------------------------
// OCRA

func buildSuite(sp SuiteSpec) (otp.Suite, error) {
	cfg := otp.SuiteConfig{
		Raw: sp.Raw, Hash: otp.Algorithm(sp.Hash), Digits: sp.Digits, Challenge: otp.ChallengeFormat(sp.Challenge),
		IncludeCounter: sp.C, IncludeChallenge: sp.Q, IncludePassword: sp.P, IncludeSession: sp.S, IncludeTimestamp: sp.T,
		PasswordHash: otp.PasswordHashAlgorithm(sp.PHash), TimeStep: sp.TimeStep,
	}
	switch sp.Mode {
	case "registered", "parsed":
		return otp.NewRawSuite(sp.Name)
	case "newsuite":
		st, err := otp.NewSuite(cfg)
		if err != nil {
			// the caller ignored the error and keeps the configuration value
			return cfg, err
		}
		return st, nil
	case "rawstruct":
		return otp.RawSuite{SuiteConfig: cfg}, nil
	default:
		return cfg, nil
	}
}

func be8(v uint64) []byte {
	b := make([]byte, 8)
	binary.BigEndian.PutUint64(b, v)
	return b
}

func pinFor(cfg otp.SuiteConfig, pin []byte) []byte {
	switch cfg.PasswordHash {
	case otp.PasswordSHA1:
		return append([]byte(nil), pin[:20]...)
	case otp.PasswordSHA256:
		return append([]byte(nil), pin[:32]...)
	case otp.PasswordSHA512:
		return append([]byte(nil), pin[:64]...)
	}
	return append([]byte(nil), pin[:20]...)
}

func (s *sim) ocraView(cfg otp.SuiteConfig, counter uint64, chal, pin, session []byte, clock instant) *ocraView {
	v := &ocraView{}
	// fields the suite does not select are filled as well (they must not matter)
	v.Counter = be8(counter)
	v.Challenge = append([]byte(nil), chal...)
	v.Password = pinFor(cfg, pin)
	v.Session = append([]byte(nil), session...)
	ts := cfg.TimeStep
	if ts <= 0 {
		ts = 60
	}
	sec := clock.Sec
	if sec < 0 {
		sec = 0
	}
	v.Timestamp = be8(uint64(sec) / uint64(ts))
	return v
}

func (v *ocraView) input() otp.OCRAInput {
	return otp.OCRAInput{Counter: v.Counter, Challenge: v.Challenge, Password: v.Password, SessionInfo: v.Session, Timestamp: v.Timestamp}
}

func safeConfig(st otp.Suite) (cfg otp.SuiteConfig) {
	defer func() { _ = recover() }()
	return st.Config()
}

func (s *sim) ocraChallenge(a *acct, e *Event) {
	a.chalSeq++
	a.curChal = append([]byte(nil), e.Chal...)
	seq := a.chalSeq
	chal := append([]byte(nil), e.Chal...)
	n := e.Net
	// corruption of the challenge on its way to the client
	if n.Corrupt != 0 {
		switch n.Corrupt % 4 {
		case 0:
			if len(chal) > 0 {
				chal[n.CArg%len(chal)] ^= 0x01
			}
		case 1:
			if len(chal) > 4 {
				chal = chal[:len(chal)-1]
			}
		case 2:
			chal = append(chal, byte(n.CArg))
		case 3:
			// delivered intact
		}
		verifh.Count("fault.challenge-corrupted", 1)
	}
	m := message{acct: a.idx, chalSeq: seq}
	net := n
	net.Corrupt = 0
	s.logf("ocra challenge acct=%d seq=%d len=%d", a.idx, seq, len(e.Chal))
	s.send(net, m, func(m message) { s.ocraClient(a, e, chal, m.chalSeq) })
}

func (s *sim) ocraClient(a *acct, e *Event, chal []byte, seq int) {
	st := a.tokSuite
	cfg := safeConfig(st)
	pin := a.Pin
	if a.TokPin != nil {
		pin = a.TokPin
		verifh.Count("fault.client-wrong-pin", 1)
	}
	sess := a.Session
	if a.TokSession != nil {
		sess = a.TokSession
		verifh.Count("fault.client-other-session-info", 1)
	}
	view := s.ocraView(cfg, a.ocraTokCtr, chal, pin, sess, s.tokClock(a))
	a.ocraTokCtr++
	var code string
	var err error
	r := guarded(func() { code, err = otp.GenerateOCRA(fresh(a.tokSecret), st, view.input()) })
	if r.panicked || r.tripped || err != nil {
		verifh.Count("client.generate-failed", 1)
		code = "000000"
	}
	if seq != a.chalSeq {
		verifh.Count("fault.client-answers-stale-challenge", 1)
	}
	m := message{acct: a.idx, code: code, hasCode: true, view: view, chalSeq: seq}
	a.sent = append(a.sent, m)
	s.logf("ocra answer acct=%d seq=%d code=%q", a.idx, seq, code)
	s.send(e.Net2, m, func(m message) { s.ocraDeliver(a, e, m) })
}

func (s *sim) ocraDeliver(a *acct, e *Event, m message) {
	st := a.suite
	cfg := safeConfig(st)
	view := s.ocraView(cfg, a.ocraVerCtr, a.curChal, a.Pin, a.Session, s.verClock())
	switch e.ViewFault {
	case 1:
		view.Counter = view.Counter[:7]
	case 2:
		view.Challenge = append(view.Challenge, make([]byte, 129)...)
	case 3:
		view.Password = nil
	case 4:
		view.Session = make([]byte, 129)
	case 5:
		view.Timestamp = append(view.Timestamp, 0)
	case 6:
		view.Challenge = view.Challenge[:min(len(view.Challenge), 3)]
	}
	if e.ViewFault != 0 {
		verifh.Count(fmt.Sprintf("fault.verifier-input-inadmissible.%d", e.ViewFault), 1)
	}
	s.ocraJudge(a, st, view, m.code, m.view)
}

func eqView(a, b *ocraView, cfg otp.SuiteConfig) bool {
	if a == nil || b == nil {
		return false
	}
	eq := func(x, y []byte) bool { return string(x) == string(y) }
	return (!cfg.IncludeCounter || eq(a.Counter, b.Counter)) && (!cfg.IncludeChallenge || eq(a.Challenge, b.Challenge)) &&
		(!cfg.IncludePassword || eq(a.Password, b.Password)) && (!cfg.IncludeSession || eq(a.Session, b.Session)) &&
		(!cfg.IncludeTimestamp || eq(a.Timestamp, b.Timestamp))
}

func (s *sim) ocraJudge(a *acct, st otp.Suite, view *ocraView, submitted string, clientView *ocraView) {
	var ok bool
	var err error
	r := guarded(func() { ok, err = otp.ValidateOCRA(fresh(a.stored), fresh(submitted), st, view.input()) })
	s.events++
	var want string
	var gerr error
	rg := guarded(func() { want, gerr = otp.GenerateOCRA(fresh(a.refSecret()), st, view.input()) })
	cfg := safeConfig(st)
	sameView := eqView(view, clientView, cfg)
	s.logf("ocra deliver acct=%d code=%q -> %v %v (gen %q %v) sameView=%v", a.idx, submitted, ok, err, want, gerr, sameView)
	verifh.Distinct(verifh.Hash64("ocra", a.Suite.Mode, cfg.Hash, cfg.Digits, cfg.IncludeCounter, cfg.IncludeChallenge, cfg.IncludePassword, cfg.IncludeSession, cfg.IncludeTimestamp, sameView, ok, err != nil, gerr != nil, len(submitted) == cfg.Digits, a.BadStore))
	if sameView {
		verifh.Count("probe.ocra.views-agree", 1)
	} else if clientView != nil {
		verifh.Count("probe.ocra.views-diverged", 1)
	}

	if r.tripped {
		if s.prop == "C06" {
			s.fail("bounded-work", "ValidateOCRA", "work-cap", "ValidateOCRA exceeded the work cap")
		}
		return
	}
	if r.panicked {
		if s.prop == "C06" {
			s.fail("no-panic", "ValidateOCRA", "panic", fmt.Sprintf("ValidateOCRA panicked: %v (suite %+v)", r.pval, a.Suite))
		}
		return
	}
	s.nontriv = true
	if s.prop == "C13" {
		if ok && err != nil {
			s.fail("verdict-shape", "ValidateOCRA", "true-with-error", fmt.Sprintf("ValidateOCRA returned (true, %v)", err))
			return
		}
		if !ok && err == nil {
			s.fail("verdict-shape", "ValidateOCRA", "false-without-error", fmt.Sprintf("ValidateOCRA returned (false, nil) for %q", submitted))
			return
		}
		if ok {
			verifh.Count("verdict.accept", 1)
		} else {
			verifh.Count("verdict.reject:"+classifyErr(err), 1)
		}
		if err != nil {
			set := map[string]uint64{}
			if !rg.panicked && !rg.tripped && gerr == nil {
				set[want] = 0
			}
			s.checkLeak("ValidateOCRA", err, a, set)
		}
		return
	}
	if s.prop != "C06" {
		return
	}
	if rg.panicked || rg.tripped {
		verifh.Count("ref.generation-panicked", 1)
		return
	}
	if gerr != nil {
		verifh.Count("oracle.generation-fails", 1)
		if ok || err == nil {
			s.fail("gen-fails=>(false,error)", "ValidateOCRA", "accepts-or-no-error-when-generation-fails", fmt.Sprintf("GenerateOCRA fails (%v) but ValidateOCRA(%q) = (%v, %v); suite=%+v", gerr, submitted, ok, err, a.Suite))
		}
		return
	}
	exp := submitted == want
	if exp {
		verifh.Count("oracle.code-equals-generated", 1)
	} else {
		verifh.Count("oracle.code-differs", 1)
	}
	if ok != exp {
		w := "accepts-other-string"
		if exp {
			w = "rejects-generated-code"
		}
		s.fail("valid<=>code==generate", "ValidateOCRA", w, fmt.Sprintf("ValidateOCRA(%q) = (%v, %v), GenerateOCRA for the same data = %q; suite=%+v views-agree=%v", submitted, ok, err, want, a.Suite, sameView))
		return
	}
	if ok {
		a.ocraVerCtr++
	}
}

// ---------------------------------------------------------------------------
// misc failing operations (C13 disclosure clause over other operations)

func (s *sim) misc(a *acct, e *Event) {
	digits, algo, _, _ := a.verEff()
	check := func(op string, err error, set map[string]uint64) {
		if err != nil {
			verifh.Count("misc.error:"+op, 1)
			s.nontriv = true
			s.checkLeak(op, err, a, set)
		}
	}
	accept := map[string]uint64{}
	if c, ok := refHOTP(a.tokSecret, a.verCounter, digits, algo); ok {
		accept[c] = a.verCounter
	}
	s.events++
	switch e.N {
	case 0: // generation with the damaged stored secret
		var err error
		guarded(func() { _, err = otp.GenerateHOTP(damage(a.tokSecret, 1+e.Net.Corrupt%8), a.verCounter, a.verParam()) })
		check("GenerateHOTP", err, accept)
	case 1:
		var err error
		guarded(func() {
			_, err = otp.GenerateTOTP(damage(a.tokSecret, 1+e.Net.Corrupt%8), goTime(s.verClock(), 0, false), &otp.Param{Digits: 6, Period: 30})
		})
		check("GenerateTOTP", err, accept)
	case 2: // provisioning URL corrupted in transit, parsed by the token
		var u *url.URL
		var err error
		up := otp.URLParam{Issuer: "Example", AccountName: "alice@example.com", Secret: strings.TrimSpace(a.tokSecret), Digits: otp.Digits(digits), Algorithm: otp.Algorithm(algo % 3), Period: uint(a.Period % 100000)}
		guarded(func() {
			if a.Kind == "hotp" {
				u, err = otp.GenerateHOTPURL(up)
			} else {
				u, err = otp.GenerateTOTPURL(up)
			}
		})
		check("GenerateURL", err, accept)
		if err == nil && u != nil {
			txt := u.String()
			switch e.Net.Corrupt {
			case 1:
				txt = strings.Replace(txt, "otpauth://", "otpauthx://", 1)
			case 2:
				txt = strings.Replace(txt, "://totp/", "://motp/", 1)
				txt = strings.Replace(txt, "://hotp/", "://motp/", 1)
			case 3:
				txt = strings.Replace(txt, "digits=", "digits=x", 1)
			case 4:
				txt = strings.Replace(txt, "algorithm=SHA", "algorithm=MD", 1)
			case 5:
				txt = strings.Replace(txt, "period=", "period=p", 1)
			case 6:
				txt = strings.Replace(txt, "Example:", "Example", 1)
				txt = strings.Replace(txt, "Example%3A", "Example", 1)
			case 7: // a query parameter given twice (what a sloppy QR generator or a merge of two URLs produces)
				txt += "&secret=" + url.QueryEscape(up.Secret)
			case 8:
				txt += "&secret=" + url.QueryEscape(up.Secret) + "AA"
			case 9:
				txt += "&digits=8&period=60&algorithm=SHA256"
			case 10:
				txt += "&issuer=Other&issuer=Third"
			case 11: // unknown extra parameters and an empty one
				txt += "&image=https%3A%2F%2Fexample.com%2Flogo.png&=x&counter=5"
			}
			if e.Net.Corrupt != 0 {
				verifh.Count("fault.url-corrupted", 1)
			}
			if pu, perr := url.Parse(txt); perr == nil {
				var err2 error
				guarded(func() { _, err2 = otp.ParseOTPAuthURL(pu) })
				check("ParseOTPAuthURL", err2, accept)
			}
		}
	case 3: // suite parsing of a mangled suite string
		var err error
		guarded(func() { _, err = otp.NewRawSuite("OCRA-1:HOTP-SHA1-x:QN08") })
		check("NewRawSuite", err, accept)
	case 4: // random secret for an unsupported hash
		var err error
		guarded(func() { _, err = otp.RandomSecret(otp.Algorithm(3 + e.Net.Corrupt)) })
		check("RandomSecret", err, accept)
	case 5: // generation with unsupported hash
		var err error
		guarded(func() {
			_, err = otp.GenerateHOTP(a.tokSecret, a.verCounter, &otp.Param{Digits: otp.Digits(digits), Algorithm: otp.Algorithm(7)})
		})
		check("GenerateHOTP", err, accept)
	}
}

// ---------------------------------------------------------------------------
// run

// Run executes one plan and returns the first violation (nil if none).
//
// When the library starts goroutines of its own (verifrt.LibGoroutines, decided
// when the scratch copy is built) the whole plan is executed as the single
// caller task of one baton-scheduler run: the library's goroutines are further
// tasks, which of them runs next is drawn from the plan (InnerSched), and one
// that is still alive when its call has returned keeps running into the next
// calls - and, parked, into the next plan of this process - as it would in a
// real program.
func Run(p *Plan, logOn bool) (v *verifh.Violation, s *sim) {
	if !verifrt.LibGoroutines {
		return run(p, logOn)
	}
	x := p.InnerSched | 1
	next := func() uint64 {
		x ^= x << 13
		x ^= x >> 7
		x ^= x << 17
		return x
	}
	cfg := verifrt.SchedConfig{Tasks: 1, Trace: logOn}
	if p.InnerSched%5 != 0 { // a fifth of the plans: goroutines run from wait to wait, no forced switches
		n := 40 + int(next()%400)
		dense := next()%2 == 0
		for i := 0; i < n; i++ {
			gap := next() % 300
			if dense || next()%3 == 0 {
				gap = next() % 25
			}
			cfg.After = append(cfg.After, uint16(gap))
			cfg.To = append(cfg.To, uint16(next()%9))
		}
	}
	verifrt.SchedStart(cfg)
	done := make(chan struct{})
	var pv any
	go func() {
		defer close(done)
		verifrt.TaskBegin(0)
		defer verifrt.TaskEnd(0)
		defer func() { pv = recover() }()
		v, s = run(p, logOn)
	}()
	verifrt.SchedRun(0)
	verifrt.SchedStop()
	<-done
	if pv != nil {
		panic(pv)
	}
	verifh.Count("fault.task-switch(goroutines of the library)", verifrt.Switches)
	verifh.Count("stat.goroutines-started-by-the-library", verifrt.Spawned)
	verifh.Count("probe.library-goroutine-alive-from-an-earlier-run", verifrt.CarriedOver)
	verifh.Count("probe.library-goroutine-still-waiting-at-end-of-run", verifrt.LeftWaiting)
	if s != nil && logOn {
		s.log = append(s.log, fmt.Sprintf("sched trace=%x switches=%d started=%d carried=%d left=%d", verifrt.TraceHash(), verifrt.Switches, verifrt.Spawned, verifrt.CarriedOver, verifrt.LeftWaiting))
	}
	return v, s
}

func run(p *Plan, logOn bool) (*verifh.Violation, *sim) {
	s := &sim{plan: p, prop: p.Prop, logOn: logOn}
	freshStrings, gcBefore, gcInCall, monoMode, callCount = p.Fresh, p.GCBefore, p.GCInCall, p.MonoMode, 0
	gcBefore := verifrt.GCsInjected
	defer func() { verifh.Count("fault.gc-inside-a-call", verifrt.GCsInjected-gcBefore) }()
	if p.MonoMode != 0 && monoLayoutOK {
		verifh.Count("fault.monotonic-reading-disagrees-with-wall-clock", 1)
	}
	for i := range p.Accounts {
		a := &acct{Account: p.Accounts[i], idx: i}
		if a.PersistEvery <= 0 {
			a.PersistEvery = 1
		}
		if a.NilParam && a.Kind != "ocra" {
			// nil parameters: both sides run on the documented defaults
			a.Digits, a.Algo = 6, 0
			if a.Kind == "hotp" {
				a.Skew = 2
			} else {
				a.Skew, a.Period = 0, 30
			}
		}
		a.tokSecret = spell(a.Secret, a.Spelling)
		a.stored = a.tokSecret
		if a.VerSpell > 0 {
			a.stored = spell(a.Secret, a.VerSpell-1)
			verifh.Count("fault.verifier-holds-another-spelling-of-the-secret", 1)
		}
		if a.BadStore != 0 {
			a.stored = damage(a.stored, a.BadStore)
			verifh.Count("fault.verifier-secret-undecodable", 1)
		}
		if a.Algo > 2 {
			verifh.Count("fault.verifier-unsupported-hash", 1)
		}
		if a.Skew > 10 && a.Kind != "ocra" && !a.NilParam {
			verifh.Count("fault.verifier-skew>10", 1)
		}
		a.tokCounter, a.tokDurable = a.Counter0, a.Counter0
		a.verCounter = a.Counter0 + uint64(int64(a.Lead))
		if a.Lead < 0 && a.Counter0 < uint64(-a.Lead) {
			a.verCounter = 0
		}
		if a.Lead > 0 && a.verCounter < a.Counter0 {
			a.verCounter = a.Counter0
		}
		if a.Kind == "ocra" {
			r := guarded(func() { a.suite, a.suiteErr = buildSuite(a.Suite) })
			if r.panicked || a.suite == nil {
				a.suite = otp.SuiteConfig{}
			}
			a.tokSuite = a.suite
			if a.TokSuite != nil {
				var ts otp.Suite
				r := guarded(func() { ts, _ = buildSuite(*a.TokSuite) })
				if !r.panicked && ts != nil {
					a.tokSuite = ts
					verifh.Count("fault.client-neighbouring-suite", 1)
				}
			}
			if a.suiteErr != nil {
				verifh.Count("fault.verifier-invalid-suite", 1)
				if s.prop == "C13" {
					s.checkLeak("NewSuite", a.suiteErr, a, nil)
				}
			}
			a.ocraTokCtr, a.ocraVerCtr = a.Counter0, a.Counter0
		}
		s.accts = append(s.accts, a)
	}
	at := int64(0)
	for i := range p.Events {
		e := &p.Events[i]
		at += e.DtNs
		if at < 0 {
			break
		}
		s.seq++
		heap.Push(&s.q, qev{at, s.seq, func() { s.stimulus(e) }})
	}
	steps := 0
	for s.q.Len() > 0 && s.viol == nil && steps < 5000 {
		ev := heap.Pop(&s.q).(qev)
		s.now = ev.at
		ev.run()
		steps++
	}
	verifh.AddSimTime(float64(s.now))
	return s.viol, s
}

func (s *sim) stimulus(e *Event) {
	if e.Acct < 0 || e.Acct >= len(s.accts) {
		return
	}
	a := s.accts[e.Acct]
	switch e.Kind {
	case "press":
		switch a.Kind {
		case "hotp":
			s.hotpPress(a, e)
		case "totp":
			s.totpPress(a, e)
		}
	case "burst":
		if a.Kind == "hotp" {
			verifh.Count("fault.lost-submissions(burst)", uint64(e.N))
			for i := 0; i < e.N; i++ {
				s.hotpPress(a, &Event{Kind: "burst"})
			}
		}
	case "crash":
		if a.Kind == "hotp" {
			verifh.Count("fault.token-crash-restart", 1)
			s.logf("crash acct=%d volatile=%d durable=%d", a.idx, a.tokCounter, a.tokDurable)
			a.tokCounter = a.tokDurable
		}
	case "jump":
		p := int64(30)
		if a.Kind == "totp" {
			pe := periodEff(a.Period)
			if pe > 1<<40 {
				pe = 1 << 40
			}
			p = int64(pe)
		} else if a.Kind == "ocra" {
			p = 60
		}
		if e.Who == 0 {
			a.tokJumpS += int64(e.N) * p
			a.tokJumpNs += e.PhaseNs
			verifh.Count("fault.clock-jump(token)", 1)
		} else {
			s.verJump = s.verJump.addSec(int64(e.N) * p).addNs(e.PhaseNs)
			verifh.Count("fault.clock-jump(verifier)", 1)
		}
		s.logf("jump acct=%d who=%d steps=%d", a.idx, e.Who, e.N)
	case "display":
		if a.Kind == "totp" {
			s.totpDisplay(a, e)
		}
	case "reconfig":
		if a.Kind != "hotp" && a.Kind != "totp" {
			return
		}
		if !a.NilParam {
			old := a.Skew
			a.Skew = uint64(e.N)
			verifh.Count("fault.verifier-window-reconfigured", 1)
			switch {
			case a.Skew < old:
				verifh.Count("fault.verifier-window-narrowed", 1)
			case a.Skew > old:
				verifh.Count("fault.verifier-window-widened", 1)
			}
			if a.Skew > 10 {
				verifh.Count("fault.verifier-skew>10", 1)
			}
		}
		if a.Kind == "hotp" && e.Who == 1 && a.verPrevSet && a.verCounter != a.verPrev {
			// the verifier died after answering and before the advanced counter
			// reached its store: only the durable counter survives the restart
			verifh.Count("fault.verifier-crash-restart(counter update lost)", 1)
			a.verCounter = a.verPrev
		}
		s.logf("reconfig acct=%d skew=%d verCounter=%d retry=%v", a.idx, a.Skew, a.verCounter, e.Aimed)
		if e.Aimed && a.lastDelivSet {
			// the owner submits the same code again at once
			verifh.Count("fault.resubmission-after-reconfiguration", 1)
			m := a.lastDeliv
			if a.Kind == "hotp" {
				if a.verPrevSet && a.verCounter == a.verPrev {
					verifh.Count("probe.same-validation-call-with-another-window", 1)
				}
				s.hotpDeliver(a, m)
			} else {
				s.totpDeliver(a, m)
			}
		}
	case "replay":
		if len(a.sent) > 0 {
			m := a.sent[e.N%len(a.sent)]
			verifh.Count("fault.replay-old-message", 1)
			switch a.Kind {
			case "hotp":
				s.send(e.Net, m, func(m message) { s.hotpDeliver(a, m) })
			case "totp":
				s.send(e.Net, m, func(m message) { s.totpDeliver(a, m) })
			}
		}
	case "arbitrary":
		m := message{acct: a.idx, code: e.Str, hasCode: true, truth: 1 << 62}
		verifh.Count("fault.arbitrary-string-submitted", 1)
		switch a.Kind {
		case "hotp":
			s.hotpDeliver(a, m)
		case "totp":
			s.totpDeliver(a, m)
		case "ocra":
			cfg := safeConfig(a.suite)
			view := s.ocraView(cfg, a.ocraVerCtr, a.curChal, a.Pin, a.Session, s.verClock())
			if len(view.Challenge) == 0 {
				view.Challenge = make([]byte, 16)
			}
			s.ocraJudge(a, a.suite, view, e.Str, nil)
		}
	case "challenge":
		if a.Kind == "ocra" {
			s.ocraChallenge(a, e)
		}
	case "resync":
		if a.Kind == "ocra" {
			a.ocraTokCtr = a.ocraVerCtr
			a.tokJumpS, a.tokJumpNs = 0, 0
			verifh.Count("env.resync", 1)
		}
	case "misc":
		s.misc(a, e)
	}
}
