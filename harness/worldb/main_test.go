package worldb

import (
	"encoding/json"
	"os"
	"strings"
	"testing"

	"github.com/ja7ad/otp/internal/verifh"
	"github.com/ja7ad/otp/internal/verifrt"
	"pgregory.net/rapid"
)

func TestMain(m *testing.M) {
	verifrt.StrictSpawn = true
	verifrt.TripDebug = os.Getenv("VERIF_TRIPDEBUG") != ""
	verifrt.ParkRaceTest = os.Getenv("VERIF_PARKRACE") != ""
	verifh.Main(m, "B")
}

func TestSim(t *testing.T) {
	prop := verifh.Prop()
	switch prop {
	case "C02", "C03", "C04", "C06", "C13":
	default:
		t.Skip("VERIF_PROP not a World B property")
	}
	logOn := os.Getenv("VERIF_EVENTLOG") != ""
	var logw *os.File
	if logOn {
		var err error
		logw, err = os.Create(os.Getenv("VERIF_EVENTLOG"))
		if err != nil {
			t.Fatal(err)
		}
		defer logw.Close()
	}
	verifh.Drive(t, "B", func(_ *testing.T, rt *rapid.T) {
		p := GenPlan(rt, prop)
		if prop != "C13" {
			// the properties that already read a panic of the call as a violation; C13 does not judge panics
			verifh.Pending("B", p)
		}
		v, s := Run(p, logOn)
		if logOn {
			logw.WriteString("RUN\n" + strings.Join(s.log, "\n") + "\n")
		}
		verifh.RunDone(s.nontriv, p)
		if v != nil {
			verifh.Report(rt, "B", p, v)
		}
	}, func(raw json.RawMessage) *verifh.Violation {
		var p Plan
		if err := json.Unmarshal(raw, &p); err != nil {
			t.Fatalf("HARNESS-ERROR: bad plan: %v", err)
		}
		v, s := Run(&p, true)
		if logOn {
			logw.WriteString("RUN\n" + strings.Join(s.log, "\n") + "\n")
		}
		return v
	})
}
