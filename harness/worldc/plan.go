package worldc

import (
	"encoding/base32"
	"encoding/hex"
	"encoding/json"
	"fmt"
	"sort"
	"strings"

	"github.com/ja7ad/otp"
	"github.com/ja7ad/otp/internal/verifh"
	"pgregory.net/rapid"
)

type Plan struct {
	Prop       string   `json:"prop"`
	StartJumpS int64    `json:"start_jump_s"` // fake time slept before the first event (bubble starts at 2000-01-01)
	ReaderKind int      `json:"reader_kind"`
	ReaderSeed uint64   `json:"reader_seed"`
	Chunks     []uint16 `json:"chunks,omitempty"`
	Events     []Event  `json:"events"`
}

type CodeSpec struct {
	Delta  int `json:"delta"`  // neighbour distance in counters / steps
	Mangle int `json:"mangle"` // 0 none, 1 last digit changed, 2 truncated, 3 extended
}

type Req struct {
	Method string    `json:"method"`
	Path   string    `json:"path"`
	Body   string    `json:"body,omitempty"`
	Class  string    `json:"class"`            // good | attack kind
	Expect string    `json:"expect,omitempty"` // "" = request model decides; non2xx; any
	Code   *CodeSpec `json:"code,omitempty"`   // body contains @@CODE@@
	Chain  bool      `json:"chain,omitempty"`  // @@CODE@@ = code of the previous answer on this connection
	Raw    string    `json:"raw,omitempty"`    // literal bytes instead of an HTTP request
	Close  bool      `json:"close,omitempty"`  // Connection: close
	Pad    int       `json:"pad,omitempty"`    // huge-string attacks: body is expanded at run time (@@PAD@@)
	// decorations that must not change the documented answer
	CType string `json:"ctype,omitempty"` // Content-Type header ("" = application/json, "-" = none)
	Query string `json:"query,omitempty"` // query string appended to a POST path (the parameters are in the body)
}

type Event struct {
	Kind    string  `json:"kind"` // req sleep close pause resume restart burst manyreq flood
	Conn    int     `json:"conn"`
	IP      int     `json:"ip"`
	Fresh   bool    `json:"fresh,omitempty"`
	Req     *Req    `json:"req,omitempty"`
	Cuts    []int   `json:"cuts,omitempty"`   // fragment boundaries in per-mille of the request bytes
	GapMs   []int64 `json:"gap_ms,omitempty"` // fake delay after each fragment
	AbortAt int     `json:"abort_at,omitempty"`
	SleepMs int64   `json:"sleep_ms,omitempty"`
	N       int     `json:"n,omitempty"`
	Burst   []Req   `json:"burst,omitempty"`
	StallAt int     `json:"stall_at,omitempty"` // the handler sleeps at its StallAt-th instrumented statement ...
	StallMs int64   `json:"stall_ms,omitempty"` // ... for this long (fake time)
	StallNs int64   `json:"stall_ns,omitempty"`
	Preempt int     `json:"preempt,omitempty"` // burst: handlers yield the processor every Preempt-th statement (0 = never)
	Probe   bool    `json:"probe,omitempty"`   // follow with probes (same connection + fresh connection)
	PReq    *Req    `json:"preq,omitempty"`    // the probe request
}

var sortedSuites = func() []string {
	l := otp.ListSuites()
	sort.Strings(l)
	return l
}()

func weighted(t *rapid.T, label string, weights ...int) int {
	sum := 0
	for _, w := range weights {
		sum += w
	}
	x := rapid.IntRange(0, sum-1).Draw(t, label)
	for i, w := range weights {
		if x < w {
			return i
		}
		x -= w
	}
	return len(weights) - 1
}

func jstr(s string) string { b, _ := json.Marshal(s); return string(b) }

type fields struct{ parts []string }

func (f *fields) add(k, rawJSON string) { f.parts = append(f.parts, jstr(k)+":"+rawJSON) }
func (f *fields) String() string        { return "{" + strings.Join(f.parts, ",") + "}" }

func genSecretStr(t *rapid.T, allowBad bool) string {
	n := rapid.SampledFrom([]int{10, 20, 20, 32, 64, 1, 5, 0}).Draw(t, "secLen")
	b := rapid.SliceOfN(rapid.Byte(), n, n).Draw(t, "secBytes")
	std := base32.StdEncoding.EncodeToString(b)
	nopad := strings.TrimRight(std, "=")
	if n == 0 {
		nopad, std = "AA", "AA======"
	}
	switch weighted(t, "secSpelling", 4, 2, 2, 2, 1) {
	case 0:
		return nopad
	case 1:
		return std
	case 2:
		return strings.ToLower(nopad)
	case 3:
		return "  " + nopad + "\t\n"
	default:
		if allowBad {
			return nopad + "!1"
		}
		return nopad
	}
}

func optStr(t *rapid.T, f *fields, key, label string, vals []string, absentW int) {
	if weighted(t, label+"?", absentW, 3) == 0 {
		return
	}
	f.add(key, jstr(rapid.SampledFrom(vals).Draw(t, label)))
}

// documented spellings, and near-spellings of every value (other case, separators, padding):
// whatever the library makes of them, the service must make the same of them on every endpoint
var digitSpell = []string{"6", "8", "9", "10", "6", "8", "7", "six", "", "06", "08", " 8", "8 ", "+8", "010", "8.0", "eight"}
var algoSpell = []string{"SHA1", "SHA256", "SHA512", "SHA1", "SHA256", "SHA512", "sha1", "MD5", "", "sha256", "sha512", "Sha512", "SHA-256", "SHA_512", " SHA256", "SHA256 ", "sha-1"}

func genOTPBody(t *rapid.T, ep string, omitTS bool) (string, *CodeSpec) {
	f := &fields{}
	f.add("secret", jstr(genSecretStr(t, true)))
	optStr(t, f, "digits", "digits", digitSpell, 2)
	optStr(t, f, "algorithm", "algorithm", algoSpell, 2)
	var cs *CodeSpec
	switch ep {
	case "/totp/generate", "/totp/validate":
		if weighted(t, "period?", 2, 3) == 1 {
			f.add("period", fmt.Sprint(rapid.SampledFrom([]uint64{0, 1, 30, 30, 60, 7, 3600, 1 << 32}).Draw(t, "period")))
		}
		if !omitTS && weighted(t, "ts?", 1, 2) == 1 {
			base := rapid.SampledFrom([]int64{1, 29, 30, 59, 60, 1_700_000_000, 1_700_000_010, 1<<31 - 1, 1 << 33, 4_000_000_000}).Draw(t, "tsBase")
			f.add("timestamp", fmt.Sprint(base+rapid.Int64Range(0, 31).Draw(t, "tsOff")))
		}
	default:
		if weighted(t, "counter?", 1, 3) == 1 {
			base := rapid.SampledFrom([]uint64{0, 1, 7, 1 << 32, 1<<63 - 3, 1 << 63, ^uint64(0) - 40}).Draw(t, "ctrBase")
			f.add("counter", fmt.Sprint(base+rapid.Uint64Range(0, 12).Draw(t, "ctrOff")))
		}
	}
	if strings.HasSuffix(ep, "/validate") {
		if weighted(t, "skew?", 1, 2) == 1 {
			f.add("skew", fmt.Sprint(rapid.IntRange(0, 10).Draw(t, "skew")))
		}
		f.add("code", jstr("@@CODE@@"))
		cs = &CodeSpec{}
		switch weighted(t, "codeKind", 5, 3, 2) {
		case 1:
			cs.Delta = rapid.IntRange(-12, 12).Draw(t, "codeDelta")
		case 2:
			cs.Mangle = rapid.IntRange(1, 3).Draw(t, "codeMangle")
		}
	}
	return f.String(), cs
}

func hexN(t *rapid.T, label string, n int) string {
	return hex.EncodeToString(rapid.SliceOfN(rapid.Byte(), n, n).Draw(t, label))
}

func genOCRABody(t *rapid.T, validate bool) (string, *CodeSpec) {
	f := &fields{}
	f.add("secret", jstr(genSecretStr(t, true)))
	var cfg otp.SuiteConfig
	if weighted(t, "suiteForm", 3, 2) == 0 {
		name := rapid.SampledFrom(sortedSuites).Draw(t, "rawSuite")
		cfg = otp.SuiteConfigFromRaws(name)
		f.add("raw_suite", jstr(name))
	} else {
		cfg = otp.SuiteConfig{
			Hash: otp.Algorithm(rapid.IntRange(0, 2).Draw(t, "sHash")), Digits: rapid.SampledFrom([]int{4, 6, 6, 8, 10, 3, 11}).Draw(t, "sDigits"),
			Challenge: otp.ChallengeFormat(rapid.IntRange(1, 6).Draw(t, "sChal")), IncludeCounter: rapid.Bool().Draw(t, "sC"), IncludeChallenge: weighted(t, "sQ", 1, 5) == 1,
			IncludePassword: rapid.Bool().Draw(t, "sP"), IncludeSession: rapid.Bool().Draw(t, "sS"), IncludeTimestamp: rapid.Bool().Draw(t, "sT"),
			PasswordHash: otp.PasswordHashAlgorithm(rapid.IntRange(0, 3).Draw(t, "sPH")), TimeStep: rapid.SampledFrom([]int{1, 30, 60, 0}).Draw(t, "sTS"),
		}
		sf := &fields{}
		sf.add("hash_function", jstr([]string{"SHA1", "SHA256", "SHA512"}[cfg.Hash]))
		sf.add("code_digits", fmt.Sprint(cfg.Digits))
		sf.add("challenge_format", fmt.Sprint(int(cfg.Challenge)))
		sf.add("include_counter", fmt.Sprint(cfg.IncludeCounter))
		sf.add("include_challenge", fmt.Sprint(cfg.IncludeChallenge))
		sf.add("include_password", fmt.Sprint(cfg.IncludePassword))
		sf.add("include_session", fmt.Sprint(cfg.IncludeSession))
		sf.add("include_timestamp", fmt.Sprint(cfg.IncludeTimestamp))
		if cfg.PasswordHash != 0 || rapid.Bool().Draw(t, "sPHpresent") {
			sf.add("password_hash", fmt.Sprint(int(cfg.PasswordHash)))
		}
		if cfg.TimeStep != 0 || rapid.Bool().Draw(t, "sTSpresent") {
			sf.add("timestep", fmt.Sprint(cfg.TimeStep))
		}
		f.add("suite", sf.String())
	}
	in := &fields{}
	bad := weighted(t, "badInput", 8, 1) == 1
	if cfg.IncludeCounter || rapid.Bool().Draw(t, "extraC") {
		n := 8
		if bad {
			n = 7
		}
		in.add("counter_hex", jstr(hexN(t, "cHex", n)))
	}
	if cfg.IncludeChallenge || rapid.Bool().Draw(t, "extraQ") {
		in.add("challenge_hex", jstr(hexN(t, "qHex", rapid.SampledFrom([]int{8, 10, 16, 64, 128, 127}).Draw(t, "qLen"))))
	}
	if cfg.IncludePassword || rapid.Bool().Draw(t, "extraP") {
		n := map[otp.PasswordHashAlgorithm]int{otp.PasswordSHA1: 20, otp.PasswordSHA256: 32, otp.PasswordSHA512: 64}[cfg.PasswordHash]
		if n == 0 {
			n = 20
		}
		in.add("password_hex", jstr(hexN(t, "pHex", n)))
	}
	if cfg.IncludeSession || rapid.Bool().Draw(t, "extraS") {
		in.add("session_info_hex", jstr(hexN(t, "sHex", rapid.SampledFrom([]int{1, 16, 64, 128}).Draw(t, "sLen"))))
	}
	if cfg.IncludeTimestamp || rapid.Bool().Draw(t, "extraT") {
		in.add("timestamp_hex", jstr(hexN(t, "tHex", 8)))
	}
	f.add("input", in.String())
	var cs *CodeSpec
	if validate {
		f.add("code", jstr("@@CODE@@"))
		cs = &CodeSpec{}
		if weighted(t, "codeKind", 5, 2) == 1 {
			cs.Mangle = rapid.IntRange(1, 3).Draw(t, "codeMangle")
		}
	}
	return f.String(), cs
}

func genURLBody(t *rapid.T) string {
	f := &fields{}
	f.add("type", jstr(rapid.SampledFrom([]string{"totp", "hotp"}).Draw(t, "urlType")))
	f.add("secret", jstr(strings.TrimSpace(genSecretStr(t, false))))
	f.add("issuer", jstr(rapid.SampledFrom([]string{"Example", "ACME Co", "a/b?c", "ü", "x%41"}).Draw(t, "issuer")))
	f.add("account_name", jstr(rapid.SampledFrom([]string{"alice@example.com", "bob", "x y", "q&a=1"}).Draw(t, "account")))
	if weighted(t, "period?", 1, 1) == 1 {
		f.add("period", fmt.Sprint(rapid.SampledFrom([]uint64{0, 30, 60, 1}).Draw(t, "period")))
	}
	optStr(t, f, "digits", "digits", digitSpell, 2)
	optStr(t, f, "algorithm", "algorithm", algoSpell, 2)
	return f.String()
}

var goodEndpoints = []string{"/totp/generate", "/totp/validate", "/hotp/generate", "/hotp/validate", "/ocra/generate", "/ocra/validate", "/ocra/suites", "/ocra/suite", "/otp/url", "/otp/secret"}

func genGood(t *rapid.T) Req {
	ep := rapid.SampledFrom(goodEndpoints).Draw(t, "endpoint")
	r := Req{Method: "POST", Path: ep, Class: "good"}
	switch ep {
	case "/totp/generate", "/totp/validate", "/hotp/generate", "/hotp/validate":
		r.Body, r.Code = genOTPBody(t, ep, false)
	case "/ocra/generate":
		r.Body, _ = genOCRABody(t, false)
	case "/ocra/validate":
		r.Body, r.Code = genOCRABody(t, true)
	case "/ocra/suites":
		r.Method = "GET"
	case "/ocra/suite":
		r.Body = `{"raw_suite":` + jstr(rapid.SampledFrom(sortedSuites).Draw(t, "rawSuite")) + `}`
	case "/otp/url":
		r.Body = genURLBody(t)
	case "/otp/secret":
		r.Method = "GET"
		switch weighted(t, "secretQ", 2, 5, 1) {
		case 1:
			r.Path += "?algorithm=" + rapid.SampledFrom([]string{"SHA1", "SHA256", "SHA512", "sha256", "MD5"}).Draw(t, "secretAlgo")
		case 2:
			r.Path += "?x=1"
		}
	}
	r.Close = weighted(t, "connClose", 9, 1) == 1
	decorate(t, &r)
	return r
}

// ctypes all say "JSON in UTF-8": a server may not treat them differently.
var ctypes = []string{"application/json; charset=utf-8", "application/json; charset=UTF-8", "application/json;charset=Utf-8", `application/json; charset="utf-8"`, "application/json ; charset=utf8", "APPLICATION/JSON", "application/json; charset=UTF-8; x=y", "-"}

// decorate adds what a client may legitimately add without changing what it asks
// for: a Content-Type spelling, or a query string on a POST whose parameters are
// in the body (names of body fields with other values included).
func decorate(t *rapid.T, r *Req) {
	if r.Method != "POST" {
		return
	}
	if weighted(t, "ctype?", 4, 1) == 1 {
		r.CType = rapid.SampledFrom(ctypes).Draw(t, "ctype")
	}
	if weighted(t, "query?", 6, 1) == 1 && !strings.Contains(r.Path, "?") {
		n := rapid.IntRange(1, 3).Draw(t, "nQuery")
		var qs []string
		for i := 0; i < n; i++ {
			k := rapid.SampledFrom([]string{"counter", "code", "secret", "timestamp", "digits", "period", "skew", "algorithm", "raw_suite", "type", "issuer", "account_name", "x", "debug"}).Draw(t, "qKey")
			v := rapid.SampledFrom([]string{"5", "0", "1", "123456", "287082", "SHA512", "8", "60", "2", "JBSWY3DPEHPK3PXP", "OCRA-1:HOTP-SHA1-6:QN08", "hotp", "true", ""}).Draw(t, "qVal")
			qs = append(qs, k+"="+v)
		}
		r.Query = strings.Join(qs, "&")
	}
}

// genChain: generate at one endpoint, validate the answer at the matching one.
func genChain(t *rapid.T) (Req, Req) {
	kind := rapid.SampledFrom([]string{"totp", "hotp", "ocra"}).Draw(t, "chainKind")
	var gen, val Req
	switch kind {
	case "ocra":
		body, _ := genOCRABody(t, false)
		gen = Req{Method: "POST", Path: "/ocra/generate", Body: body, Class: "good"}
		val = Req{Method: "POST", Path: "/ocra/validate", Body: strings.TrimSuffix(body, "}") + `,"code":"@@CODE@@"}`, Class: "good", Chain: true}
	default:
		body, _ := genOTPBody(t, "/"+kind+"/generate", kind == "totp" && rapid.Bool().Draw(t, "chainOmitTS"))
		gen = Req{Method: "POST", Path: "/" + kind + "/generate", Body: body, Class: "good"}
		val = Req{Method: "POST", Path: "/" + kind + "/validate", Body: strings.TrimSuffix(body, "}") + `,"code":"@@CODE@@"}`, Class: "good", Chain: true}
	}
	return gen, val
}

// genTwin: two TOTP requests for the same secret whose (period, time step)
// pairs read the same when written one after the other without a separator
// (period 30 / step 58129306 vs period 305 / step 8129306): the classic
// ambiguity of a cache or memo key built by concatenation. Each answer is
// judged on its own by the request model.
func genTwin(t *rapid.T) (Req, Req) {
	secret := genSecretStr(t, false)
	ep := rapid.SampledFrom([]string{"/totp/generate", "/totp/generate", "/totp/validate"}).Draw(t, "twinEp")
	p1 := rapid.Uint64Range(1, 999).Draw(t, "twinPeriod")
	step1 := rapid.Uint64Range(10, 99_999_999).Draw(t, "twinStep")
	ds := fmt.Sprint(step1)
	for len(ds) < 2 || ds[1] == '0' {
		step1 += 11
		ds = fmt.Sprint(step1)
	}
	p2 := p1*10 + uint64(ds[0]-'0')
	var step2 uint64
	fmt.Sscan(ds[1:], &step2)
	mk := func(p, step uint64, off uint64) Req {
		f := &fields{}
		f.add("secret", jstr(secret))
		f.add("period", fmt.Sprint(p))
		f.add("timestamp", fmt.Sprint(step*p+off%p))
		r := Req{Method: "POST", Path: ep, Class: "good"}
		if ep == "/totp/validate" {
			f.add("code", jstr("@@CODE@@"))
			r.Code = &CodeSpec{}
		}
		r.Body = f.String()
		return r
	}
	a := mk(p1, step1, rapid.Uint64Range(0, 998).Draw(t, "twinOffA"))
	b := mk(p2, step2, rapid.Uint64Range(0, 9989).Draw(t, "twinOffB"))
	if rapid.Bool().Draw(t, "twinSwap") {
		return b, a
	}
	return a, b
}

var allPaths = []string{"/totp/generate", "/totp/validate", "/hotp/generate", "/hotp/validate", "/ocra/generate", "/ocra/validate", "/ocra/suites", "/ocra/suite", "/otp/url", "/otp/secret", "/"}

func genAttack(t *rapid.T) Req {
	kind := rapid.SampledFrom([]string{"truncated-json", "truncated-json", "type-confusion", "extreme-number", "extreme-number", "weird-body", "huge-string", "contradictory-suite",
		"wrong-method", "unknown-path", "garbage", "missing-required", "bad-http", "body-nobody-reads"}).Draw(t, "attack")
	base := genGood(t)
	for base.Method != "POST" && (kind == "truncated-json" || kind == "type-confusion" || kind == "extreme-number" || kind == "missing-required" || kind == "huge-string") {
		base = genGood(t)
	}
	base.Body = strings.ReplaceAll(base.Body, "@@CODE@@", "123456")
	base.Code = nil
	r := Req{Method: base.Method, Path: base.Path, Body: base.Body, Class: kind}
	switch kind {
	case "truncated-json":
		if len(r.Body) > 1 {
			r.Body = r.Body[:rapid.IntRange(0, len(r.Body)-1).Draw(t, "cut")]
		} else {
			r.Body = "{"
		}
		r.Expect = "non2xx"
	case "type-confusion":
		key := rapid.SampledFrom([]string{"secret", "code", "counter", "timestamp", "digits", "period", "skew", "algorithm", "raw_suite", "suite", "input", "type", "issuer", "account_name"}).Draw(t, "tcKey")
		val := rapid.SampledFrom([]string{`5`, `"5"`, `true`, `null`, `[]`, `{}`, `[1,2]`, `{"a":1}`, `-1`, `1.5`, `"\u0000"`}).Draw(t, "tcVal")
		r.Body = replaceField(r.Body, key, val)
		r.Expect = "any"
	case "extreme-number":
		key := rapid.SampledFrom([]string{"skew", "skew", "period", "counter", "timestamp", "code_digits", "timestep"}).Draw(t, "exKey")
		val := rapid.SampledFrom([]string{"18446744073709551615", "18446744073709551616", "9223372036854775807", "9223372036854775808", "-1", "-9223372036854775808", "11", "200000", "4294967296", "1e30", "1.5", "0"}).Draw(t, "exVal")
		r.Path = rapid.SampledFrom([]string{"/totp/validate", "/totp/validate", "/hotp/validate", "/totp/generate", "/hotp/generate", r.Path}).Draw(t, "exPath")
		if r.Path != base.Path {
			b, _ := genOTPBody(t, r.Path, false)
			r.Body = strings.ReplaceAll(b, "@@CODE@@", "123456")
		}
		r.Body = replaceField(r.Body, key, val)
		r.Expect = "any"
	case "weird-body":
		r.Body = rapid.SampledFrom([]string{"", " ", "null", "[]", `"x"`, "0", "{}", "{{", `{"secret":`, strings.Repeat("[", 2000), strings.Repeat(`{"a":`, 500), "\x00\x01\x02", "\xff\xfe", `{"secret":"a","secret":"b"}`}).Draw(t, "weird")
		r.Method = "POST"
		r.Path = rapid.SampledFrom(allPaths[:10]).Draw(t, "weirdPath")
		r.Expect = "any"
		if r.Path != "/ocra/suites" && r.Path != "/otp/secret" {
			r.Expect = "non2xx" // none of these bodies carries the required fields
		}
	case "huge-string":
		r.Body = replaceField(r.Body, rapid.SampledFrom([]string{"secret", "code", "algorithm", "digits", "raw_suite"}).Draw(t, "hugeKey"), `"@@PAD@@"`)
		r.Pad = rapid.SampledFrom([]int{4096, 65536, 300000, 1 << 20, 1<<20 + 4096}).Draw(t, "pad")
		r.Expect = "any"
	case "contradictory-suite":
		body, _ := genOCRABody(t, rapid.Bool().Draw(t, "csValidate"))
		body = strings.ReplaceAll(body, "@@CODE@@", "123456")
		extra := rapid.SampledFrom([]string{`"raw_suite":" "`, `"raw_suite":"OCRA-1:HOTP-SHA1-6:QN08"`, `"raw_suite":"nonsense"`, `"raw_suite":"OCRA-1:HOTP-SHA1-6:QN08 "`,
			`"suite":{"hash_function":"SHA1","code_digits":6,"challenge_format":1,"include_challenge":true}`, `"suite":null`, `"suite":{}`}).Draw(t, "csExtra")
		r.Path = "/ocra/generate"
		if strings.Contains(body, `"code"`) {
			r.Path = "/ocra/validate"
		}
		r.Method = "POST"
		r.Body = strings.TrimSuffix(body, "}") + "," + extra + "}"
		r.Expect = "any"
	case "body-nobody-reads":
		// a sizeable body sent where no handler will read it (wrong method, unknown
		// path, a GET route): the probe that follows on the same connection must still
		// be understood
		r.Path = rapid.SampledFrom(append([]string{"/nope", "/ocra/suites", "/otp/secret", "/"}, allPaths...)).Draw(t, "bnPath")
		r.Method = rapid.SampledFrom([]string{"PUT", "DELETE", "PATCH", "POST", "GET", "OPTIONS"}).Draw(t, "bnMethod")
		if r.Method == "POST" {
			r.Path = rapid.SampledFrom([]string{"/nope", "/ocra/suites", "/otp/secret", "/", "/totp"}).Draw(t, "bnPostPath")
		}
		r.Body = `{"secret":"@@PAD@@"}`
		r.Pad = rapid.SampledFrom([]int{5000, 9000, 20000, 70000, 300000, 900000}).Draw(t, "bnPad")
		r.Expect = "any"
	case "wrong-method":
		r.Path = rapid.SampledFrom(allPaths).Draw(t, "wmPath")
		get := r.Path == "/ocra/suites" || r.Path == "/otp/secret" || r.Path == "/"
		ms := []string{"GET", "PUT", "DELETE", "PATCH", "OPTIONS", "HEAD"}
		if get {
			ms = []string{"POST", "PUT", "DELETE", "PATCH", "OPTIONS"}
		}
		r.Method = rapid.SampledFrom(ms).Draw(t, "wmMethod")
		if r.Method == "GET" || r.Method == "HEAD" {
			r.Body = ""
		}
		r.Expect = "non2xx"
		if weighted(t, "exoticMethod?", 3, 1) == 1 {
			// methods outside the usual set (WebDAV, extension methods, odd spellings)
			r.Method = rapid.SampledFrom([]string{"PROPFIND", "TRACE", "LOCK", "MKCOL", "REPORT", "M-SEARCH", "FOO", "post", "Get", "QUERY"}).Draw(t, "wmExotic")
			r.Expect = "any"
		}
	case "unknown-path":
		r.Path = rapid.SampledFrom([]string{"/nope", "/totp", "/totp/generate/", "/TOTP/generate", "/totp//generate", "/../etc/passwd", "/otp/secret/x", "/%00", "/ocra/suitez", "*"}).Draw(t, "upPath")
		r.Expect = "non2xx"
		if r.Path == "/totp//generate" || r.Path == "/totp/generate/" {
			r.Expect = "any" // path normalisation is the server's business
		}
	case "garbage":
		r.Raw = rapid.SampledFrom([]string{"\x16\x03\x01\x02\x00\x01\x00\x01\xfc\x03\x03", "GET\r\n\r\n", "\r\n\r\n\r\n", "POST /totp/generate HTTP/9.9\r\n\r\n", strings.Repeat("A", 20000) + "\r\n\r\n",
			"GET / HTTP/1.1\r\nHost: x\r\nContent-Length: -5\r\n\r\n", "POST /totp/generate HTTP/1.1\r\nHost: x\r\nContent-Length: abc\r\n\r\n", "GET / HTTP/1.1\r\n" + strings.Repeat("X-H: y\r\n", 3000) + "\r\n"}).Draw(t, "garbage")
		r.Expect = "any"
	case "missing-required":
		key := rapid.SampledFrom([]string{"secret", "code", "input", "raw_suite", "type", "issuer", "account_name"}).Draw(t, "mrKey")
		if !strings.Contains(r.Body, `"`+key+`"`) {
			key = "secret"
		}
		mode := rapid.SampledFrom([]string{"drop", "blank", "empty"}).Draw(t, "mrMode")
		switch mode {
		case "drop":
			r.Body = dropField(r.Body, key)
		case "blank":
			r.Body = replaceField(r.Body, key, `"  "`)
		default:
			r.Body = replaceField(r.Body, key, `""`)
		}
		r.Expect = "non2xx"
		if key == "raw_suite" && strings.Contains(r.Body, `"suite"`) {
			r.Expect = "any"
		}
		if key == "input" && mode != "drop" {
			r.Expect = "any"
		}
		if !strings.Contains(base.Body, `"`+key+`"`) {
			r.Expect = "any"
		}
	case "bad-http":
		r.Raw = fmt.Sprintf("POST %s HTTP/1.1\r\nHost: x\r\nTransfer-Encoding: chunked\r\nContent-Type: application/json\r\n\r\n%x\r\n%s\r\n0\r\n\r\n", base.Path, len(base.Body), base.Body)
		r.Expect = "any"
	}
	return r
}

// replaceField sets "key":<raw> in a flat JSON object text (adds it if absent).
func replaceField(body, key, raw string) string {
	var m map[string]json.RawMessage
	if json.Unmarshal([]byte(body), &m) != nil || m == nil {
		return `{` + jstr(key) + `:` + raw + `}`
	}
	return rebuild(m, key, raw, false)
}

func dropField(body, key string) string {
	var m map[string]json.RawMessage
	if json.Unmarshal([]byte(body), &m) != nil || m == nil {
		return `{}`
	}
	return rebuild(m, key, "", true)
}

func rebuild(m map[string]json.RawMessage, key, raw string, drop bool) string {
	keys := make([]string, 0, len(m)+1)
	for k := range m {
		if k != key {
			keys = append(keys, k)
		}
	}
	sort.Strings(keys)
	f := &fields{}
	for _, k := range keys {
		f.add(k, string(m[k]))
	}
	if !drop {
		f.add(key, raw)
	}
	return f.String()
}

func genFrag(t *rapid.T, e *Event, adversarial bool) {
	switch weighted(t, "fragClass", 6, 3, 1) {
	case 0:
	case 1:
		n := rapid.IntRange(1, 4).Draw(t, "nCuts")
		for i := 0; i < n; i++ {
			e.Cuts = append(e.Cuts, rapid.IntRange(1, 999).Draw(t, "cut"))
			e.GapMs = append(e.GapMs, rapid.SampledFrom([]int64{0, 1, 50, 900, 2500, 4900}).Draw(t, "gap"))
		}
	default:
		n := rapid.IntRange(5, 30).Draw(t, "nCutsMany")
		for i := 0; i < n; i++ {
			e.Cuts = append(e.Cuts, rapid.IntRange(1, 999).Draw(t, "cut"))
			e.GapMs = append(e.GapMs, rapid.SampledFrom([]int64{0, 0, 1, 100}).Draw(t, "gapS"))
		}
	}
	if adversarial && weighted(t, "stall?", 6, 1) == 1 && len(e.Cuts) > 0 {
		e.GapMs[rapid.IntRange(0, len(e.GapMs)-1).Draw(t, "stallAt")] = rapid.SampledFrom([]int64{5000, 5001, 6000, 31000, 120000}).Draw(t, "stall")
	}
	sort.Ints(e.Cuts)
}

func GenPlan(t *rapid.T, prop string) *Plan {
	p := &Plan{Prop: prop}
	p.StartJumpS = rapid.SampledFrom([]int64{0, 1, 29, 86400 * 365, 86400 * 9000, 1_100_000_000, 3_000_000_000}).Draw(t, "startJump")
	p.ReaderKind = rapid.IntRange(0, 4).Draw(t, "readerKind")
	p.ReaderSeed = rapid.Uint64().Draw(t, "readerSeed")
	nc := rapid.IntRange(0, 20).Draw(t, "nChunks")
	for i := 0; i < nc; i++ {
		p.Chunks = append(p.Chunks, uint16(rapid.IntRange(0, 24).Draw(t, "chunk")))
	}
	adversarial := prop == "C19"
	nConn := rapid.SampledFrom([]int{1, 2, 4, 8}).Draw(t, "nConn")
	maxEv := 40
	if verifh.Thorough() && weighted(t, "longRun?", 3, 1) == 1 {
		maxEv = 160 // thorough tier: a quarter of the runs are long histories on one server
	}
	ne := rapid.IntRange(1, maxEv).Draw(t, "nEvents")
	for i := 0; i < ne; i++ {
		var e Event
		e.Conn = rapid.IntRange(0, nConn-1).Draw(t, "conn")
		e.IP = rapid.IntRange(0, 3).Draw(t, "ip")
		kw := []int{12, 3, 1, 0, 0, 1, 2, 1, 0, 0, 2, 0, 1}
		if adversarial {
			kw = []int{4, 3, 2, 1, 1, 1, 1, 1, 1, 12, 1, 1, 1}
		}
		switch weighted(t, "evKind", kw...) {
		case 0:
			e.Kind = "req"
			r := genGood(t)
			e.Req = &r
			e.Fresh = weighted(t, "fresh", 4, 1) == 1
			genFrag(t, &e, false)
			if weighted(t, "stall?", 4, 1) == 1 {
				e.StallAt = rapid.IntRange(1, 120).Draw(t, "stallAt")
				e.StallMs = rapid.SampledFrom([]int64{0, 1, 400, 999, 1000, 1001, 2500, 29000, 31000}).Draw(t, "stallMs")
				e.StallNs = rapid.SampledFrom([]int64{1, 999_999, 500_000_000}).Draw(t, "stallNs")
			}
		case 1:
			e.Kind = "sleep"
			e.SleepMs = rapid.SampledFrom([]int64{1, 500, 1000, 4000, 29000, 30000, 31000, 3600_000, 86400_000}).Draw(t, "sleepMs")
		case 2:
			e.Kind = "close"
		case 3:
			e.Kind = "pause"
		case 4:
			e.Kind = "resume"
		case 5:
			e.Kind = "restart"
		case 6:
			e.Kind = "burst"
			e.Preempt = rapid.SampledFrom([]int{0, 1, 2, 3, 7, 19, 50}).Draw(t, "preempt")
			n := rapid.IntRange(2, 12).Draw(t, "burstN")
			for j := 0; j < n; j++ {
				if adversarial && rapid.Bool().Draw(t, "burstAttack") {
					e.Burst = append(e.Burst, genAttack(t))
				} else {
					e.Burst = append(e.Burst, genGood(t))
				}
			}
		case 7:
			e.Kind = "manyreq"
			e.N = rapid.SampledFrom([]int{5, 20, 99, 100, 101, 130, 130, 20, 5, 600, 1100}).Draw(t, "manyN")
			r := genGood(t)
			r.Close = false
			e.Req = &r
			e.AbortAt = rapid.IntRange(0, 1).Draw(t, "pipelined") // 1 = pipelined in one write
		case 8:
			e.Kind = "flood"
			e.N = rapid.SampledFrom([]int{10, 49, 50, 51, 70}).Draw(t, "floodN")
		case 9:
			e.Kind = "req"
			r := genAttack(t)
			e.Req = &r
			e.Fresh = weighted(t, "fresh", 3, 1) == 1
			genFrag(t, &e, true)
			if weighted(t, "abort?", 7, 1) == 1 {
				e.AbortAt = rapid.IntRange(1, 999).Draw(t, "abortAt")
			}
			e.Probe = true
			pr := genGood(t)
			pr.Close = false
			e.PReq = &pr
		case 11:
			e.Kind = "manyattack"
			r := genAttack(t)
			for r.Raw != "" || r.Pad > 0 {
				r = genAttack(t)
			}
			e.Req = &r
			e.N = rapid.SampledFrom([]int{5, 60, 260, 520}).Draw(t, "attackN")
			e.Probe = true
			pr := genGood(t)
			pr.Close = false
			e.PReq = &pr
		case 12:
			e.Kind = "twin"
			a, b := genTwin(t)
			e.Req, e.PReq = &a, &b
		case 10:
			e.Kind = "chain"
			g, v := genChain(t)
			e.Req, e.PReq = &g, &v
		}
		p.Events = append(p.Events, e)
	}
	return p
}
