package worldc

import (
	"encoding/json"
	"os"
	"strings"
	"testing"

	"github.com/ja7ad/otp/internal/verifh"
	"pgregory.net/rapid"
)

func TestMain(m *testing.M) { verifh.Main(m, "C") }

func TestSim(t *testing.T) {
	prop := verifh.Prop()
	switch prop {
	case "C18", "C19":
	default:
		t.Skip("VERIF_PROP not a World C property")
	}
	logOn := os.Getenv("VERIF_EVENTLOG") != ""
	var logw *os.File
	if logOn {
		var err error
		logw, err = os.Create(os.Getenv("VERIF_EVENTLOG"))
		if err != nil {
			t.Fatal(err)
		}
		defer logw.Close()
	}
	verifh.Drive(t, "C", func(tt *testing.T, rt *rapid.T) {
		p := GenPlan(rt, prop) // drawn completely before the bubble exists
		v, info := Run(tt, p, logOn)
		if logOn {
			if os.Getenv("VERIF_EVENTLOG_PLANS") != "" {
				pb, _ := json.Marshal(p)
				logw.WriteString("PLAN " + string(pb) + "\n")
			}
			logw.WriteString("RUN\n" + strings.Join(info.log, "\n") + "\n")
		}
		verifh.RunDone(info.nontriv, p)
		if v != nil {
			verifh.Report(rt, "C", p, v)
		}
	}, func(raw json.RawMessage) *verifh.Violation {
		var p Plan
		if err := json.Unmarshal(raw, &p); err != nil {
			t.Fatalf("HARNESS-ERROR: bad plan: %v", err)
		}
		v, info := Run(t, &p, true)
		if logOn {
			logw.WriteString("RUN\n" + strings.Join(info.log, "\n") + "\n")
		}
		return v
	})
}
