// Package worldc: the real api.Server inside a testing/synctest bubble over a
// simulated transport (DESIGN.md 3.3). Decides C18 and C19.
package worldc

import (
	"bytes"
	"errors"
	"net"
	"strconv"
	"strings"
	"sync"
)

// simListener hands plan-created connections to fasthttp's accept loop.
type simListener struct {
	ch     chan net.Conn
	closed chan struct{}
	once   sync.Once
}

func newListener() *simListener {
	return &simListener{ch: make(chan net.Conn), closed: make(chan struct{})}
}

func (l *simListener) Accept() (net.Conn, error) {
	select {
	case c := <-l.ch:
		return c, nil
	case <-l.closed:
		return nil, net.ErrClosed
	}
}
func (l *simListener) Close() error   { l.once.Do(func() { close(l.closed) }); return nil }
func (l *simListener) Addr() net.Addr { return &net.TCPAddr{IP: net.IPv4(10, 0, 0, 1), Port: 8080} }

// offer gives a connection to the server; false if the listener is closed.
func (l *simListener) offer(c net.Conn) bool {
	select {
	case l.ch <- c:
		return true
	case <-l.closed:
		return false
	}
}

// addrConn is the server end of a pipe with plan-chosen addresses.
type addrConn struct {
	net.Conn
	remote, local net.Addr
}

func (c *addrConn) RemoteAddr() net.Addr { return c.remote }
func (c *addrConn) LocalAddr() net.Addr  { return c.local }

// clientConn is the client end with its two pumps.
type clientConn struct {
	id     int
	ip     int
	c      net.Conn
	wq     chan []byte // fragments to write
	mu     sync.Mutex
	rbuf   bytes.Buffer // everything read so far and not yet parsed
	rerr   error        // read side ended (EOF / closed)
	werr   error
	paused chan struct{} // non-nil & open: reader pump is paused ("client never reads")
	pause  bool
	resume chan struct{}
	closed bool
	opened int64 // fake unix nanos

	pending   []*sent // requests sent, not yet answered (FIFO)
	requests  int     // requests completely sent on this connection
	dirty     bool    // a client-side fault is in force: unanswered requests are not judged
	dirtyWhy  string
	wdone     chan struct{}
	rdone     chan struct{}
	bytesSent int
}

func newClientConn(id, ip int, c net.Conn) *clientConn {
	cc := &clientConn{id: id, ip: ip, c: c, wq: make(chan []byte, 4096), resume: make(chan struct{}, 1), wdone: make(chan struct{}), rdone: make(chan struct{})}
	go cc.readPump()
	go cc.writePump()
	return cc
}

func (cc *clientConn) readPump() {
	defer close(cc.rdone)
	buf := make([]byte, 16*1024)
	for {
		cc.mu.Lock()
		p := cc.pause
		cc.mu.Unlock()
		if p {
			<-cc.resume // durably blocked while the client "does not read"
			continue
		}
		n, err := cc.c.Read(buf)
		cc.mu.Lock()
		if n > 0 {
			cc.rbuf.Write(buf[:n])
		}
		if err != nil {
			cc.rerr = err
			cc.mu.Unlock()
			return
		}
		cc.mu.Unlock()
	}
}

func (cc *clientConn) writePump() {
	defer close(cc.wdone)
	for frag := range cc.wq {
		if _, err := cc.c.Write(frag); err != nil {
			cc.mu.Lock()
			cc.werr = err
			cc.mu.Unlock()
			// drain the queue so the driver never blocks
			for range cc.wq {
			}
			return
		}
	}
}

func (cc *clientConn) send(b []byte) {
	if cc.closed {
		return
	}
	cc.bytesSent += len(b)
	cc.wq <- append([]byte(nil), b...)
}

func (cc *clientConn) setPause(on bool) {
	cc.mu.Lock()
	was := cc.pause
	cc.pause = on
	cc.mu.Unlock()
	if was && !on {
		select {
		case cc.resume <- struct{}{}:
		default:
		}
	}
}

func (cc *clientConn) close() {
	if cc.closed {
		return
	}
	cc.closed = true
	close(cc.wq)
	_ = cc.c.Close()
	cc.setPause(false)
}

// readEnded reports whether the server closed the connection (or we did).
func (cc *clientConn) readEnded() bool {
	cc.mu.Lock()
	defer cc.mu.Unlock()
	return cc.rerr != nil
}

func (cc *clientConn) writeFailed() bool {
	cc.mu.Lock()
	defer cc.mu.Unlock()
	return cc.werr != nil
}

// ---------------------------------------------------------------------------
// minimal HTTP/1.1 response parser (client side)

type response struct {
	status   int
	headers  map[string]string
	body     []byte
	complete bool
	raw      int // bytes consumed
}

var errMalformed = errors.New("malformed response")

// parseResponse tries to parse one complete response from b. headOnly: the
// request was HEAD (no body follows whatever Content-Length says).
func parseResponse(b []byte, headOnly bool) (*response, error) {
	i := bytes.Index(b, []byte("\r\n\r\n"))
	if i < 0 {
		if len(b) > 64*1024 {
			return nil, errMalformed
		}
		return nil, nil
	}
	head := string(b[:i])
	lines := strings.Split(head, "\r\n")
	sl := strings.SplitN(lines[0], " ", 3)
	if len(sl) < 2 || !strings.HasPrefix(sl[0], "HTTP/1.") {
		return nil, errMalformed
	}
	st, err := strconv.Atoi(sl[1])
	if err != nil || st < 100 || st > 599 {
		return nil, errMalformed
	}
	r := &response{status: st, headers: map[string]string{}}
	for _, l := range lines[1:] {
		kv := strings.SplitN(l, ":", 2)
		if len(kv) != 2 {
			return nil, errMalformed
		}
		r.headers[strings.ToLower(strings.TrimSpace(kv[0]))] = strings.TrimSpace(kv[1])
	}
	rest := b[i+4:]
	if headOnly || st == 204 || st == 304 || st < 200 {
		r.complete, r.raw = true, i+4
		return r, nil
	}
	if te := r.headers["transfer-encoding"]; strings.Contains(strings.ToLower(te), "chunked") {
		// chunked body
		var body []byte
		p := 0
		for {
			j := bytes.Index(rest[p:], []byte("\r\n"))
			if j < 0 {
				return nil, nil
			}
			szs := strings.TrimSpace(strings.SplitN(string(rest[p:p+j]), ";", 2)[0])
			sz, err := strconv.ParseInt(szs, 16, 32)
			if err != nil || sz < 0 {
				return nil, errMalformed
			}
			p += j + 2
			if sz == 0 {
				k := bytes.Index(rest[p:], []byte("\r\n"))
				if k < 0 {
					return nil, nil
				}
				p += k + 2
				r.body, r.complete, r.raw = body, true, i+4+p
				return r, nil
			}
			if len(rest) < p+int(sz)+2 {
				return nil, nil
			}
			body = append(body, rest[p:p+int(sz)]...)
			p += int(sz) + 2
		}
	}
	cl, ok := r.headers["content-length"]
	if !ok {
		// body delimited by connection close: caller decides at EOF
		return nil, nil
	}
	n, err := strconv.Atoi(cl)
	if err != nil || n < 0 {
		return nil, errMalformed
	}
	if len(rest) < n {
		return nil, nil
	}
	r.body, r.complete, r.raw = rest[:n], true, i+4+n
	return r, nil
}
