package worldc

// Request model: JSON field -> library argument with the documented defaults
// (README endpoint table and swagger definitions), calling the library
// directly. Written from the documentation, not from handlers.go. Where the
// documentation is silent the case is not judged (Judge=false).

import (
	"bytes"
	"encoding/json"
	"fmt"
	"sort"
	"strings"
	"time"

	"github.com/ja7ad/otp"
)

type expectation struct {
	Judge   bool                                   // false: outside the documented well-formed domain
	Want2xx bool                                   // the request must succeed / must be answered with a failure status
	Either  bool                                   // validate endpoints: failure of the library may be reported as valid:false or as an error status
	Check   func(body []byte, t1 time.Time) string // 2xx body against the library's result ("" = ok); t1 = server clock when the answer was read
	Desc    string
}

type mOTPReq struct {
	Secret    *string `json:"secret"`
	Timestamp *int64  `json:"timestamp"`
	Counter   *uint64 `json:"counter"`
	Code      *string `json:"code"`
	Digits    *string `json:"digits"`
	Period    *uint   `json:"period"`
	Skew      *uint   `json:"skew"`
	Algorithm *string `json:"algorithm"`
}

type mSuite struct {
	HashFunction     string `json:"hash_function"`
	CodeDigits       int    `json:"code_digits"`
	ChallengeFormat  int    `json:"challenge_format"`
	IncludeCounter   bool   `json:"include_counter"`
	IncludeChallenge bool   `json:"include_challenge"`
	IncludePassword  bool   `json:"include_password"`
	IncludeSession   bool   `json:"include_session"`
	IncludeTimestamp bool   `json:"include_timestamp"`
	PasswordHash     int    `json:"password_hash"`
	Timestep         int    `json:"timestep"`
}

type mOCRAReq struct {
	Secret   *string `json:"secret"`
	Code     *string `json:"code"`
	RawSuite *string `json:"raw_suite"`
	Suite    *mSuite `json:"suite"`
	Input    *struct {
		CounterHex     string `json:"counter_hex"`
		ChallengeHex   string `json:"challenge_hex"`
		PasswordHex    string `json:"password_hex"`
		SessionInfoHex string `json:"session_info_hex"`
		TimestampHex   string `json:"timestamp_hex"`
	} `json:"input"`
}

type mURLReq struct {
	Type        *string `json:"type"`
	Secret      *string `json:"secret"`
	Issuer      *string `json:"issuer"`
	AccountName *string `json:"account_name"`
	Period      *uint   `json:"period"`
	Digits      *string `json:"digits"`
	Algorithm   *string `json:"algorithm"`
}

func mDigits(s *string) otp.Digits {
	if s == nil {
		return otp.SixDigits
	}
	switch *s {
	case "6":
		return 6
	case "8":
		return 8
	case "9":
		return 9
	case "10":
		return 10
	}
	return 6 // unknown spellings fall back to the default
}

func mAlgo(s *string) otp.Algorithm {
	if s == nil {
		return otp.SHA1
	}
	switch *s {
	case "SHA1":
		return otp.SHA1
	case "SHA256":
		return otp.SHA256
	case "SHA512":
		return otp.SHA512
	}
	return otp.SHA1
}

func algoName(a otp.Algorithm) string {
	switch a {
	case otp.SHA256:
		return "SHA256"
	case otp.SHA512:
		return "SHA512"
	}
	return "SHA1"
}

func strictDecode(body []byte, v any) error {
	d := json.NewDecoder(bytes.NewReader(body))
	d.DisallowUnknownFields()
	return d.Decode(v)
}

func blank(s *string) bool { return s == nil || strings.TrimSpace(*s) == "" }

type genResp struct {
	Code      *string `json:"code"`
	Timestamp int64   `json:"timestamp"`
	Counter   uint64  `json:"counter"`
	Suite     string  `json:"suite"`
}

type valResp struct {
	Valid *bool `json:"valid"`
}

// model computes the expectation for a well-formed request. now is the server
// clock (fake) at the moment the request is handled; randNext is the expected
// next bytes of the simulated random source (nil: unknown, conservation only).
func model(method, path string, body []byte, now time.Time) expectation {
	p, q, _ := strings.Cut(path, "?")
	notJudged := expectation{}
	switch p {
	case "/totp/generate", "/totp/validate", "/hotp/generate", "/hotp/validate":
		if method != "POST" {
			return notJudged
		}
		var r mOTPReq
		if err := strictDecode(body, &r); err != nil || blank(r.Secret) {
			return notJudged
		}
		par := &otp.Param{Digits: mDigits(r.Digits), Algorithm: mAlgo(r.Algorithm)}
		secret := strings.TrimSpace(*r.Secret)
		switch p {
		case "/totp/generate":
			par.Period = 30
			if r.Period != nil && *r.Period != 0 {
				par.Period = *r.Period
			}
			t := now
			if r.Timestamp != nil {
				if *r.Timestamp <= 0 {
					return notJudged // documentation silent
				}
				t = time.Unix(*r.Timestamp, 0)
			}
			code, err := otp.GenerateTOTP(secret, t, par)
			if err != nil {
				return expectation{Judge: true, Want2xx: false, Desc: "library fails: " + err.Error()}
			}
			omitted := r.Timestamp == nil
			t0 := t
			return expectation{Judge: true, Want2xx: true, Desc: fmt.Sprintf("GenerateTOTP(t=%d,%+v)=%s", t.Unix(), *par, code), Check: func(b []byte, t1 time.Time) string {
				var g genResp
				if err := json.Unmarshal(b, &g); err != nil || g.Code == nil {
					return "response is not the documented shape: " + string(b)
				}
				want := code
				if omitted {
					// the server's clock decided: the echoed instant must lie between the
					// moment the request was complete and the moment the answer was read,
					// and the code must be the library's code for exactly that instant
					if g.Timestamp < t0.Unix() || g.Timestamp > t1.Unix() {
						return fmt.Sprintf("timestamp %d is not within [%d,%d], the time the request was being served", g.Timestamp, t0.Unix(), t1.Unix())
					}
					w, err := otp.GenerateTOTP(secret, time.Unix(g.Timestamp, 0), par)
					if err != nil {
						return "library fails for the echoed instant: " + err.Error()
					}
					want = w
				} else if g.Timestamp != t.Unix() {
					return fmt.Sprintf("timestamp %d, used instant %d", g.Timestamp, t.Unix())
				}
				if *g.Code != want {
					return fmt.Sprintf("code %q, library gives %q for the echoed timestamp %d", *g.Code, want, g.Timestamp)
				}
				return ""
			}}
		case "/totp/validate":
			if r.Code == nil || blank(r.Code) {
				return notJudged
			}
			par.Period = 30
			if r.Period != nil && *r.Period != 0 {
				par.Period = *r.Period
			}
			if r.Skew != nil {
				par.Skew = *r.Skew
			}
			t := now
			if r.Timestamp != nil {
				if *r.Timestamp <= 0 {
					return notJudged
				}
				t = time.Unix(*r.Timestamp, 0)
			}
			ok, err := otp.ValidateTOTP(secret, *r.Code, t, par)
			e := verdictExpectation(ok, err, fmt.Sprintf("ValidateTOTP(code=%q,t=%d,%+v)", *r.Code, t.Unix(), *par))
			if r.Timestamp == nil {
				// the server's clock decides; it may have advanced while the request was
				// served: the verdict must be the library's for some instant in between
				t0, code, p2 := t, *r.Code, *par
				inner := e.Check
				e.Check = func(b []byte, t1 time.Time) string {
					msg := inner(b, t1)
					if msg == "" || t1.Unix() == t0.Unix() {
						return msg
					}
					var v valResp
					if json.Unmarshal(b, &v) != nil || v.Valid == nil {
						return msg
					}
					period := int64(p2.Period)
					if period <= 0 || (t1.Unix()-t0.Unix())/period > 8 {
						return "" // too many steps went by to enumerate: not judged
					}
					for ts := t0.Unix(); ; {
						got, _ := otp.ValidateTOTP(secret, code, time.Unix(ts, 0), &p2)
						if got == *v.Valid {
							return ""
						}
						if ts >= t1.Unix() {
							break
						}
						ts = (ts/period + 1) * period
						if ts > t1.Unix() {
							ts = t1.Unix()
						}
					}
					return msg + fmt.Sprintf(" (for every instant in [%d,%d])", t0.Unix(), t1.Unix())
				}
			}
			return e
		case "/hotp/generate":
			var c uint64
			if r.Counter != nil {
				c = *r.Counter
			}
			code, err := otp.GenerateHOTP(secret, c, par)
			if err != nil {
				return expectation{Judge: true, Want2xx: false, Desc: "library fails: " + err.Error()}
			}
			return expectation{Judge: true, Want2xx: true, Desc: fmt.Sprintf("GenerateHOTP(c=%d,%+v)=%s", c, *par, code), Check: func(b []byte, t1 time.Time) string {
				var g genResp
				if err := json.Unmarshal(b, &g); err != nil || g.Code == nil {
					return "response is not the documented shape: " + string(b)
				}
				if *g.Code != code {
					return fmt.Sprintf("code %q, library gives %q", *g.Code, code)
				}
				if g.Counter != c {
					return fmt.Sprintf("counter %d, request said %d", g.Counter, c)
				}
				return ""
			}}
		default:
			if r.Code == nil || blank(r.Code) {
				return notJudged
			}
			var c uint64
			if r.Counter != nil {
				c = *r.Counter
			}
			if r.Skew != nil {
				par.Skew = *r.Skew
			}
			ok, err := otp.ValidateHOTP(secret, *r.Code, c, par)
			return verdictExpectation(ok, err, fmt.Sprintf("ValidateHOTP(code=%q,c=%d,%+v)", *r.Code, c, *par))
		}
	case "/ocra/generate", "/ocra/validate":
		if method != "POST" {
			return notJudged
		}
		var r mOCRAReq
		if err := strictDecode(body, &r); err != nil || blank(r.Secret) || r.Input == nil {
			return notJudged
		}
		hasRaw := r.RawSuite != nil && *r.RawSuite != ""
		if hasRaw == (r.Suite != nil) {
			return notJudged // none or both: contradictory / incomplete, C19 material
		}
		var suite otp.Suite
		if hasRaw {
			if !otp.IsKnownSuite(*r.RawSuite) {
				return notJudged
			}
			s, err := otp.NewRawSuite(*r.RawSuite)
			if err != nil {
				return expectation{Judge: true, Want2xx: false, Desc: "suite invalid: " + err.Error()}
			}
			suite = s
		} else {
			h := r.Suite.HashFunction
			s, err := otp.NewSuite(otp.SuiteConfig{
				Hash: mAlgo(&h), Digits: r.Suite.CodeDigits, Challenge: otp.ChallengeFormat(r.Suite.ChallengeFormat),
				IncludeCounter: r.Suite.IncludeCounter, IncludeChallenge: r.Suite.IncludeChallenge, IncludePassword: r.Suite.IncludePassword,
				IncludeSession: r.Suite.IncludeSession, IncludeTimestamp: r.Suite.IncludeTimestamp,
				PasswordHash: otp.PasswordHashAlgorithm(r.Suite.PasswordHash), TimeStep: r.Suite.Timestep,
			})
			if err != nil {
				return expectation{Judge: true, Want2xx: false, Desc: "suite invalid: " + err.Error()}
			}
			suite = s
		}
		in, err := otp.HexInputToOCRA(r.Input.CounterHex, r.Input.ChallengeHex, r.Input.PasswordHex, r.Input.SessionInfoHex, r.Input.TimestampHex)
		if err != nil {
			return expectation{Judge: true, Want2xx: false, Desc: "input not hex: " + err.Error()}
		}
		if p == "/ocra/generate" {
			code, err := otp.GenerateOCRA(*r.Secret, suite, in)
			if err != nil {
				return expectation{Judge: true, Want2xx: false, Desc: "library fails: " + err.Error()}
			}
			return expectation{Judge: true, Want2xx: true, Desc: "GenerateOCRA=" + code, Check: func(b []byte, t1 time.Time) string {
				var g genResp
				if err := json.Unmarshal(b, &g); err != nil || g.Code == nil {
					return "response is not the documented shape: " + string(b)
				}
				if *g.Code != code {
					return fmt.Sprintf("code %q, library gives %q", *g.Code, code)
				}
				if g.Suite != suite.String() {
					return fmt.Sprintf("suite %q, want %q", g.Suite, suite.String())
				}
				return ""
			}}
		}
		if r.Code == nil || blank(r.Code) {
			return notJudged
		}
		ok, err := otp.ValidateOCRA(*r.Secret, *r.Code, suite, in)
		return verdictExpectation(ok, err, fmt.Sprintf("ValidateOCRA(code=%q)", *r.Code))
	case "/ocra/suites":
		if method != "GET" {
			return notJudged
		}
		want := otp.ListSuites()
		sort.Strings(want)
		return expectation{Judge: true, Want2xx: true, Desc: "ListSuites", Check: func(b []byte, t1 time.Time) string {
			var l struct {
				Suites []string `json:"suites"`
			}
			if err := json.Unmarshal(b, &l); err != nil {
				return "response is not the documented shape"
			}
			got := append([]string(nil), l.Suites...)
			sort.Strings(got)
			if strings.Join(got, "\n") != strings.Join(want, "\n") {
				return fmt.Sprintf("suite list differs from ListSuites(): %d vs %d entries", len(got), len(want))
			}
			return ""
		}}
	case "/ocra/suite":
		if method != "POST" {
			return notJudged
		}
		var r struct {
			RawSuite *string `json:"raw_suite"`
		}
		if err := strictDecode(body, &r); err != nil || blank(r.RawSuite) || !otp.IsKnownSuite(*r.RawSuite) {
			return notJudged
		}
		cfg := otp.SuiteConfigFromRaws(*r.RawSuite)
		return expectation{Judge: true, Want2xx: true, Desc: "SuiteConfigFromRaws", Check: func(b []byte, t1 time.Time) string {
			var g struct {
				Raw    string `json:"raw"`
				Config mSuite `json:"config"`
			}
			if err := json.Unmarshal(b, &g); err != nil {
				return "response is not the documented shape"
			}
			want := mSuite{HashFunction: algoName(cfg.Hash), CodeDigits: cfg.Digits, ChallengeFormat: int(cfg.Challenge), IncludeCounter: cfg.IncludeCounter,
				IncludeChallenge: cfg.IncludeChallenge, IncludePassword: cfg.IncludePassword, IncludeSession: cfg.IncludeSession, IncludeTimestamp: cfg.IncludeTimestamp,
				PasswordHash: int(cfg.PasswordHash), Timestep: cfg.TimeStep}
			if g.Raw != *r.RawSuite || g.Config != want {
				return fmt.Sprintf("suite description %+v (raw %q), library says %+v", g.Config, g.Raw, want)
			}
			return ""
		}}
	case "/otp/url":
		if method != "POST" {
			return notJudged
		}
		var r mURLReq
		if err := strictDecode(body, &r); err != nil || blank(r.Type) || blank(r.Secret) || blank(r.Issuer) || blank(r.AccountName) {
			return notJudged
		}
		up := otp.URLParam{Issuer: *r.Issuer, AccountName: *r.AccountName, Secret: *r.Secret, Digits: mDigits(r.Digits), Algorithm: mAlgo(r.Algorithm)}
		if r.Period != nil {
			up.Period = *r.Period
		}
		var want string
		var err error
		switch *r.Type {
		case "totp":
			u, e := otp.GenerateTOTPURL(up)
			if e == nil {
				want = u.String()
			}
			err = e
		case "hotp":
			u, e := otp.GenerateHOTPURL(up)
			if e == nil {
				want = u.String()
			}
			err = e
		default:
			return notJudged
		}
		if err != nil {
			return expectation{Judge: true, Want2xx: false, Desc: "library fails: " + err.Error()}
		}
		return expectation{Judge: true, Want2xx: true, Desc: "URL=" + want, Check: func(b []byte, t1 time.Time) string {
			var g struct {
				URL string `json:"url"`
			}
			if err := json.Unmarshal(b, &g); err != nil {
				return "response is not the documented shape"
			}
			if g.URL != want {
				return fmt.Sprintf("url %q, library gives %q", g.URL, want)
			}
			return ""
		}}
	case "/otp/secret":
		if method != "GET" {
			return notJudged
		}
		algo := otp.SHA1
		for _, kv := range strings.Split(q, "&") {
			k, v, _ := strings.Cut(kv, "=")
			if k == "algorithm" {
				algo = mAlgo(&v)
			}
		}
		size := map[otp.Algorithm]int{otp.SHA1: 20, otp.SHA256: 32, otp.SHA512: 64}[algo]
		return expectation{Judge: true, Want2xx: true, Desc: "RandomSecret(" + algoName(algo) + ")", Check: func(b []byte, t1 time.Time) string {
			var g struct {
				Secret    string `json:"secret"`
				Algorithm string `json:"algorithm"`
			}
			if err := json.Unmarshal(b, &g); err != nil {
				return "response is not the documented shape"
			}
			if g.Algorithm != algoName(algo) {
				return fmt.Sprintf("algorithm %q, request asked for %q", g.Algorithm, algoName(algo))
			}
			dec, err := otp.DecodeSecret(g.Secret)
			if err != nil || len(dec) != size {
				return fmt.Sprintf("secret %q does not decode to %d bytes (%d, %v)", g.Secret, size, len(dec), err)
			}
			return ""
		}}
	}
	return notJudged
}

func verdictExpectation(ok bool, err error, desc string) expectation {
	if ok {
		return expectation{Judge: true, Want2xx: true, Desc: desc + " = true", Check: func(b []byte, t1 time.Time) string {
			var v valResp
			if e := json.Unmarshal(b, &v); e != nil || v.Valid == nil {
				return "response is not the documented shape: " + string(b)
			}
			if !*v.Valid {
				return "valid=false, library accepts"
			}
			return ""
		}}
	}
	return expectation{Judge: true, Want2xx: true, Either: true, Desc: fmt.Sprintf("%s = false (%v)", desc, err), Check: func(b []byte, t1 time.Time) string {
		var v valResp
		if e := json.Unmarshal(b, &v); e != nil || v.Valid == nil {
			return "response is not the documented shape: " + string(b)
		}
		if *v.Valid {
			return "valid=true, library rejects"
		}
		return ""
	}}
}
