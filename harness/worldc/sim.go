package worldc

import (
	"bytes"
	"crypto/rand"
	"encoding/json"
	"fmt"
	"io"
	"log/slog"
	"net"
	"os"
	"runtime"
	"sort"
	"strings"
	"sync/atomic"
	"testing"
	"testing/synctest"
	"time"

	"github.com/ja7ad/otp"
	"github.com/ja7ad/otp/internal/app/api"
	"github.com/ja7ad/otp/internal/verifh"
	"github.com/ja7ad/otp/internal/verifrt"
	"github.com/valyala/fasthttp"
)

const (
	workCap       = 300_000 // instrumented statements per event (a legitimate request needs < 3 000)
	responseBound = 60 * time.Second
	probeIPBase   = 200
)

// Hang watchdog (real time, outside any bubble). A handler goroutine that
// blocks on a lock forever is not "durably blocked" for synctest, so
// synctest.Wait() never returns and not even fake time can advance: the
// driver stops making progress. After hangAfter of real time without progress
// while a run is active the watchdog writes the witness (plan up to the
// current event) and ends the process with exit code 3; the runner confirms it
// by replay (the fresh process must end the same way).
var (
	progress  atomic.Uint64
	runActive atomic.Bool
	hangInfo  atomic.Pointer[hangWitness]
)

type hangWitness struct {
	prop string
	plan *Plan
	ev   int
	desc string
	op   string
}

const hangAfter = 25 * time.Second

func init() {
	go func() {
		last, since := uint64(0), time.Now()
		for {
			time.Sleep(time.Second)
			p := progress.Load()
			if !runActive.Load() || p != last {
				last, since = p, time.Now()
				continue
			}
			if time.Since(since) < hangAfter {
				continue
			}
			hw := hangInfo.Load()
			fmt.Printf("VERIF-HANG: no progress for %v of real time\n", hangAfter)
			stk := make([]byte, 1<<18)
			stk = stk[:runtime.Stack(stk, true)]
			fmt.Printf("VERIF-HANG goroutines:\n%s\n", stk)
			if why := unsimulable(string(stk)); why != "" {
				// not the server's fault: the bubble cannot become quiescent because goroutines
				// inside it wait on a channel that was created outside it (a package-level
				// channel, e.g. the queue of a worker pool built in a variable initialiser).
				// testing/synctest cannot simulate that; reported as infrastructure trouble.
				fmt.Printf("VERIF-UNSUPPORTED: %s\n", why)
				if fp := os.Getenv("VERIF_FAIL"); fp != "" {
					_ = os.Remove(fp + ".pending")
				}
				os.Exit(4)
			}
			if hw != nil {
				pl := *hw.plan
				if hw.ev+1 <= len(pl.Events) {
					pl.Events = pl.Events[:hw.ev+1]
				}
				pb, _ := json.Marshal(pl)
				v := verifh.Violation{Property: hw.prop, Clause: "bounded-response", Op: hw.op, Witness: "server-blocked-forever", Detail: "the service stopped making progress (goroutines blocked on a lock; neither a response nor a timeout can ever happen) while serving " + hw.desc}
				ff := verifh.FailFile{Property: hw.prop, World: "C", Signature: v.Signature(), Violation: v, Plan: pb, Crash: true}
				b, _ := json.Marshal(ff)
				if fp := os.Getenv("VERIF_FAIL"); fp != "" {
					_ = os.WriteFile(fp, b, 0o644)
					_ = os.Remove(fp + ".pending")
				}
			}
			os.Exit(3)
		}
	}()
}

// unsimulable looks for goroutines of the bubble that are blocked on a channel
// operation without being durably blocked: the channel does not belong to the bubble.
func unsimulable(stacks string) string {
	for _, g := range strings.Split(stacks, "\n\n") {
		if strings.Contains(g, "verifrt.Yield") && strings.Contains(g, "time.Sleep") && strings.Contains(g, "synctest bubble") {
			// the injected stall itself holds something every other goroutine needs: fake
			// time cannot advance past it. A wedge of the fault injector, not of the service.
			return "the injected handler stall (verifrt.Yield -> time.Sleep) wedged the bubble: goroutines that are not durably blocked wait for something the sleeper holds"
		}
		head := g
		if i := strings.IndexByte(g, '\n'); i >= 0 {
			head = g[:i]
		}
		if !strings.Contains(head, "synctest bubble") || strings.Contains(head, "(durable)") {
			continue
		}
		if strings.Contains(head, "[chan receive") || strings.Contains(head, "[chan send") || strings.Contains(head, "[select") {
			fn := ""
			if lines := strings.Split(g, "\n"); len(lines) > 1 {
				fn = strings.TrimSpace(lines[1])
			}
			return "a goroutine inside the simulation waits on a channel created outside it (" + head + " " + fn + "); testing/synctest cannot make such a bubble quiescent"
		}
	}
	return ""
}

func init() {
	// fasthttp starts a never-ending date refresher on the first response it
	// serialises; it must not be born inside a bubble.
	var r fasthttp.Response
	_, _ = r.WriteTo(io.Discard)
	slog.SetDefault(slog.New(slog.NewTextHandler(io.Discard, nil)))
}

type sent struct {
	req      *Req
	method   string
	path     string
	body     []byte
	exp      expectation
	complete bool // all request bytes were handed to the transport
	judge    bool // healthy connection, complete request: a response is owed
	role     string
	at       time.Time
	evIdx    int
	retried  bool
	secretAt int // reader log length when the request was sent (for /otp/secret)
	rdPos    uint64
	rdCpos   int
	seq      bool
}

type world struct {
	plan         *Plan
	prop         string
	ln           *simListener
	srv          *api.Server
	serveCh      chan error
	slots        map[int]*clientConn
	all          []*clientConn
	nextID       int
	rd           *verifrt.Reader
	viol         *verifh.Violation
	lastCode     map[int]string
	log          []string
	logOn        bool
	nontriv      bool
	evIdx        int
	stopped      bool
	pendingPath  string
	sleepN       int64
	stallAt      uint64
	stallDur     time.Duration
	strictSecret bool
}

// sleep advances the fake clock. Every sleep carries its own sub-millisecond
// offset so that two timers of the system under test (for instance the write
// deadline left over from the previous response and the read deadline of the
// next request) never expire at exactly the same fake instant: the order in
// which the runtime fires simultaneous timers is the one thing a plan cannot
// determine (seen as a 1-in-3 log divergence in the determinism self-test).
func (w *world) sleep(d time.Duration) {
	w.sleepN++
	time.Sleep(d + time.Duration(1009+7919*w.sleepN)*time.Nanosecond)
}

func (w *world) logf(format string, args ...any) {
	if w.logOn {
		w.log = append(w.log, fmt.Sprintf("t=%d ev=%d ", time.Now().Unix(), w.evIdx)+fmt.Sprintf(format, args...))
	}
}

func (w *world) fail(clause, op, witness, detail string) {
	if w.viol == nil {
		w.viol = &verifh.Violation{Property: w.prop, Clause: clause, Op: op, Witness: witness, Detail: detail}
	}
}

func (w *world) startServer() {
	srv, err := api.NewServer()
	if err != nil {
		verifh.HarnessError("NewServer: %v", err)
		return
	}
	w.srv = srv
	w.ln = newListener()
	w.serveCh = make(chan error, 1)
	ln := w.ln
	go func() { w.serveCh <- srv.VerifServe(ln) }()
	w.stopped = false
}

func (w *world) stopServer() {
	if w.srv == nil || w.stopped {
		return
	}
	w.stopped = true
	// fasthttp v1.60.0 closes tracked idle connections in Shutdown and its
	// worker closes them a second time; with MaxConnsPerIP > 0 the second
	// perIPConn.Close dereferences nil and kills the process. That is an
	// operator-initiated path outside the listed properties (see DESIGN.md), so
	// the simulated operator only stops a server whose clients have gone.
	for _, c := range w.all {
		if !c.closed {
			c.dirty, c.dirtyWhy = true, "server restarted"
			c.close()
		}
	}
	synctest.Wait()
	w.sleep(50 * time.Millisecond)
	synctest.Wait()
	done := make(chan struct{})
	srv := w.srv
	go func() { srv.VerifStop(); close(done) }()
	deadline := time.Now().Add(90 * time.Second)
	for {
		synctest.Wait()
		select {
		case <-done:
			_ = w.ln.Close()
			select {
			case <-w.serveCh:
			default:
			}
			return
		default:
		}
		if time.Now().After(deadline) {
			verifh.Count("probe.shutdown-needed>90s", 1)
			// force: close every client connection, then wait again
			for _, c := range w.all {
				c.close()
			}
			deadline = time.Now().Add(90 * time.Second)
		}
		w.sleep(100 * time.Millisecond)
	}
}

func ipOf(i int) net.IP { return net.IPv4(10, 1, byte(i>>8), byte(i)) }

func (w *world) open(slot, ip int) *clientConn {
	if old := w.slots[slot]; old != nil {
		old.close()
	}
	cl, sv := net.Pipe()
	w.nextID++
	cc := newClientConn(w.nextID, ip, cl)
	cc.opened = time.Now().UnixNano()
	w.all = append(w.all, cc)
	w.slots[slot] = cc
	ac := &addrConn{Conn: sv, remote: &net.TCPAddr{IP: ipOf(ip), Port: 40000 + w.nextID%20000}, local: &net.TCPAddr{IP: net.IPv4(10, 0, 0, 1), Port: 8080}}
	if w.stopped || !w.ln.offer(ac) {
		_ = sv.Close()
		cc.dirty, cc.dirtyWhy = true, "server not accepting"
	}
	verifh.Count("stat.connections-opened", 1)
	return cc
}

// usable returns the connection in the slot, opening a fresh one if needed.
func (w *world) usable(slot, ip int, fresh bool) *clientConn {
	cc := w.slots[slot]
	if cc == nil || cc.closed || fresh || cc.readEnded() || cc.writeFailed() || (cc.dirty && !cc.pauseOn()) {
		cc = w.open(slot, ip)
	}
	return cc
}

func (cc *clientConn) pauseOn() bool {
	cc.mu.Lock()
	defer cc.mu.Unlock()
	return cc.pause
}

func mangleCode(code string, m int) string {
	switch m {
	case 1:
		if code == "" {
			return "1"
		}
		b := []byte(code)
		last := b[len(b)-1]
		if last < '0' || last > '9' {
			b[len(b)-1] = '0'
		} else {
			b[len(b)-1] = '0' + (last-'0'+1)%10
		}
		return string(b)
	case 2:
		if len(code) > 1 {
			return code[:len(code)-1]
		}
		return "12"
	case 3:
		return code + "0"
	}
	return code
}

// codeFor computes (with the library, called directly) the code to submit.
func codeFor(r *Req, now time.Time) string {
	verifrt.ResetMeter(workCap)
	defer func() { _ = recover(); verifrt.ResetMeter(0) }()
	cs := r.Code
	code := "000000"
	switch r.Path {
	case "/hotp/validate":
		var m mOTPReq
		if json.Unmarshal([]byte(r.Body), &m) == nil && m.Secret != nil {
			var c uint64
			if m.Counter != nil {
				c = *m.Counter
			}
			c += uint64(int64(cs.Delta))
			if g, err := otp.GenerateHOTP(*m.Secret, c, &otp.Param{Digits: mDigits(m.Digits), Algorithm: mAlgo(m.Algorithm)}); err == nil {
				code = g
			}
		}
	case "/totp/validate":
		var m mOTPReq
		if json.Unmarshal([]byte(r.Body), &m) == nil && m.Secret != nil {
			t := now
			if m.Timestamp != nil {
				t = time.Unix(*m.Timestamp, 0)
			}
			p := uint(30)
			if m.Period != nil && *m.Period != 0 {
				p = *m.Period
			}
			if p < 1<<40 {
				t = t.Add(time.Duration(cs.Delta) * time.Duration(p) * time.Second)
			}
			if g, err := otp.GenerateTOTP(*m.Secret, t, &otp.Param{Digits: mDigits(m.Digits), Algorithm: mAlgo(m.Algorithm), Period: p}); err == nil {
				code = g
			}
		}
	case "/ocra/validate":
		gen := *r
		gen.Path = "/ocra/generate"
		var raw map[string]json.RawMessage
		if json.Unmarshal([]byte(r.Body), &raw) == nil {
			delete(raw, "code")
			b, _ := json.Marshal(raw)
			e := model("POST", "/ocra/generate", b, now)
			if e.Judge && e.Want2xx {
				code = strings.TrimPrefix(e.Desc, "GenerateOCRA=")
			}
		}
	}
	return mangleCode(code, cs.Mangle)
}

func buildHTTP(method, path string, body []byte, closeHdr bool, ctype, query string) []byte {
	var sb strings.Builder
	if query != "" && !strings.Contains(path, "?") {
		path += "?" + query
	}
	fmt.Fprintf(&sb, "%s %s HTTP/1.1\r\nHost: otp.test\r\nUser-Agent: verif-sim\r\n", method, path)
	if closeHdr {
		sb.WriteString("Connection: close\r\n")
	}
	if len(body) > 0 || method == "POST" || method == "PUT" || method == "PATCH" {
		switch ctype {
		case "":
			sb.WriteString("Content-Type: application/json\r\n")
		case "-":
		default:
			sb.WriteString("Content-Type: " + ctype + "\r\n")
		}
		fmt.Fprintf(&sb, "Content-Length: %d\r\n", len(body))
	}
	sb.WriteString("\r\n")
	return append([]byte(sb.String()), body...)
}

func guardedModel(method, path string, body []byte, now time.Time) (e expectation) {
	// the model calls the library directly: on a tree where that call does
	// unbounded work (or panics) there is no reference answer - bounded by the
	// same statement meter, the request is then simply not judged by the model
	verifrt.ResetMeter(workCap)
	defer func() {
		if p := recover(); p != nil {
			e = expectation{}
			verifh.Count("skip.model-call-panicked-or-tripped", 1)
		}
		verifrt.ResetMeter(0)
	}()
	return model(method, path, body, now)
}

func guardedCheck(check func([]byte, time.Time) string, body []byte) (msg string) {
	verifrt.ResetMeter(workCap)
	defer func() {
		if p := recover(); p != nil {
			msg = ""
			verifh.Count("skip.model-call-panicked-or-tripped", 1)
		}
		verifrt.ResetMeter(0)
	}()
	return check(body, time.Now())
}

// prepare turns a Req into bytes + expectation at the current fake instant.
func (w *world) prepare(cc *clientConn, r *Req, role string) (*sent, []byte) {
	now := time.Now()
	body := r.Body
	if r.Chain {
		body = strings.ReplaceAll(body, "@@CODE@@", w.lastCode[cc.id])
	} else if r.Code != nil {
		body = strings.ReplaceAll(body, "@@CODE@@", codeFor(r, now))
	}
	if r.Pad > 0 {
		body = strings.ReplaceAll(body, "@@PAD@@", strings.Repeat("A", r.Pad))
	}
	s := &sent{req: r, method: r.Method, path: r.Path, body: []byte(body), role: role, evIdx: w.evIdx}
	var wire []byte
	if r.Raw != "" {
		wire = []byte(r.Raw)
		s.method = "RAW"
	} else {
		wire = buildHTTP(r.Method, r.Path, s.body, r.Close, r.CType, r.Query)
	}
	return s, wire
}

func (w *world) expect(s *sent) {
	if s.req.Raw != "" {
		return
	}
	if s.req.Expect == "" {
		s.exp = guardedModel(s.method, s.path, s.body, time.Now())
	}
}

// deliver sends wire bytes (optionally fragmented with fake delays). It returns
// false when a client-side fault (stall beyond a server timeout, abort) hit.
func (w *world) deliver(cc *clientConn, s *sent, wire []byte, cuts []int, gaps []int64, abortAt int) {
	cc.pending = append(cc.pending, s)
	pos := 0
	healthy := !cc.dirty
	var bounds []int
	for _, c := range cuts {
		b := len(wire) * c / 1000
		if b > pos && b < len(wire) {
			bounds = append(bounds, b)
			pos = b
		}
	}
	abortPos := -1
	if abortAt > 0 {
		abortPos = len(wire) * abortAt / 1000
	}
	pos = 0
	stalled := int64(0)
	for i := 0; i <= len(bounds); i++ {
		end := len(wire)
		if i < len(bounds) {
			end = bounds[i]
		}
		if abortPos >= 0 && abortPos < end {
			// reset in the middle of the request
			if abortPos > pos {
				cc.send(wire[pos:abortPos])
			}
			synctest.Wait()
			cc.close()
			cc.dirty, cc.dirtyWhy = true, "client reset mid-request"
			verifh.Count("fault.reset-mid-request", 1)
			w.logf("conn %d reset mid-request at %d/%d", cc.id, abortPos, len(wire))
			synctest.Wait()
			return
		}
		last := end == len(wire)
		if last {
			// the handler will run at this fake instant
			w.expect(s)
			s.at = time.Now()
			s.secretAt = len(w.rd.Log)
			s.rdPos, s.rdCpos = w.rd.State()
			verifrt.ResetMeter(workCap)
			if w.stallAt > 0 && os.Getenv("VERIF_NOSTALL") == "" {
				verifrt.SetStall(w.stallAt, w.stallDur)
			}
		}
		cc.send(wire[pos:end])
		pos = end
		synctest.Wait()
		if last {
			break
		}
		g := gaps[i%len(gaps)]
		if g > 0 {
			if g >= 1000 {
				verifh.Count("fault.fragment-gap>=1s", 1)
			}
			stalled += g
			if stalled >= 5000 {
				// beyond the shortest server timeout: from here on the client is at fault
				healthy = false
				cc.dirty, cc.dirtyWhy = true, "client stalled mid-request"
				verifh.Count("fault.request-spans-read-timeout", 1)
			}
			w.sleep(time.Duration(g) * time.Millisecond)
			synctest.Wait()
		}
		verifh.Count("fault.fragmented-delivery", 1)
	}
	s.complete = true
	cc.requests++
	s.judge = healthy && !cc.dirty && !cc.pauseOn() && !w.stopped && s.req.Class != "garbage"
}

// harvest parses whatever the server wrote on cc and judges answered requests.
func (w *world) harvest(cc *clientConn) {
	progress.Add(1)
	for {
		cc.mu.Lock()
		data := cc.rbuf.Bytes()
		var head bool
		if len(cc.pending) > 0 {
			head = cc.pending[0].method == "HEAD"
		}
		resp, err := parseResponse(data, head)
		if err != nil {
			cc.mu.Unlock()
			if !cc.dirty {
				w.fail("complete-http-response", "transport", "malformed-response", fmt.Sprintf("conn %d: server wrote bytes that are not an HTTP response: %q", cc.id, clipB(data, 200)))
			}
			return
		}
		if resp == nil {
			cc.mu.Unlock()
			return
		}
		cc.rbuf.Next(resp.raw)
		body := append([]byte(nil), resp.body...)
		resp.body = body
		cc.mu.Unlock()
		if len(cc.pending) == 0 {
			// response without request: legitimate for timeouts (408-like) on idle/stalled connections
			verifh.Count("stat.unsolicited-response", 1)
			w.logf("conn %d unsolicited response %d", cc.id, resp.status)
			continue
		}
		s := cc.pending[0]
		cc.pending = cc.pending[1:]
		w.judge(cc, s, resp)
		if strings.EqualFold(resp.headers["connection"], "close") {
			verifh.Count("stat.server-announced-close", 1)
		}
	}
}

func clipB(b []byte, n int) []byte {
	if len(b) > n {
		return b[:n]
	}
	return b
}

func is2xx(st int) bool { return st >= 200 && st < 300 }

func shapeOK(path string, body []byte) string {
	p, _, _ := strings.Cut(path, "?")
	var m map[string]any
	if err := json.Unmarshal(body, &m); err != nil {
		return "2xx body is not a JSON object"
	}
	need := map[string]string{"/totp/generate": "code", "/hotp/generate": "code", "/ocra/generate": "code", "/totp/validate": "valid", "/hotp/validate": "valid", "/ocra/validate": "valid",
		"/ocra/suites": "suites", "/ocra/suite": "config", "/otp/url": "url", "/otp/secret": "secret"}[p]
	if need == "" {
		return ""
	}
	v, ok := m[need]
	if !ok {
		return "2xx body lacks the documented field " + need
	}
	if need == "code" {
		if s, _ := v.(string); s == "" {
			return "2xx body has an empty code"
		}
	}
	if need == "valid" {
		if _, isBool := v.(bool); !isBool {
			return "2xx body: valid is not a boolean"
		}
	}
	return ""
}

func (w *world) judge(cc *clientConn, s *sent, resp *response) {
	ep, _, _ := strings.Cut(s.path, "?")
	if w.logOn {
		shown := string(clipB(resp.body, 160))
		if bytes.HasPrefix(resp.body, []byte(`{"suites":[`)) {
			// map-ordered in the library: log as a sorted set
			var l struct {
				Suites []string `json:"suites"`
			}
			_ = json.Unmarshal(resp.body, &l)
			sort.Strings(l.Suites)
			shown = fmt.Sprintf("suites(sorted,%d) %s", len(l.Suites), verifhHash(l.Suites))
		}
		if ep == "/otp/secret" && !s.seq && is2xx(resp.status) {
			// parallel handlers share the random stream: which bytes each one gets is
			// the one thing the plan does not determine (checked for conservation only)
			shown = fmt.Sprintf("secret(parallel) len=%d", len(resp.body))
		}
		w.logf("conn %d %s %s [%s/%s] -> %d %s", cc.id, s.method, s.path, s.role, s.req.Class, resp.status, shown)
	}
	verifh.Distinct(verifh.Hash64("C", ep, s.method, s.req.Class, s.req.Expect, resp.status, cc.requests > 1, s.role, fieldMask(s.body), s.exp.Judge, s.exp.Want2xx, s.exp.Either))
	if is2xx(resp.status) {
		var g genResp
		if json.Unmarshal(resp.body, &g) == nil && g.Code != nil {
			w.lastCode[cc.id] = *g.Code
		}
	}
	if !s.complete || !s.judge {
		// incomplete, or a client-side fault (stall beyond a server timeout, paused
		// reader, restart) was in force: whatever the server answered is its business
		verifh.Count("skip.answer-to-request-under-client-fault", 1)
		return
	}
	w.nontriv = true
	good := s.req.Class == "good"
	if w.prop == "C18" && !good {
		return
	}
	switch s.req.Expect {
	case "":
		if !s.exp.Judge {
			verifh.Count("skip.request-outside-documented-domain", 1)
			return
		}
		clause, witness := "answer==library", "differs-from-library"
		if s.role != "main" && w.prop == "C19" {
			clause, witness = "keeps-serving", "probe-answer-wrong"
		}
		if !s.exp.Want2xx {
			verifh.Count("oracle.expect-failure-status", 1)
			if is2xx(resp.status) {
				w.fail(clause, ep, "success-status-although-library-fails", fmt.Sprintf("%s %s body=%s -> %d %s; model: %s", s.method, shown(s), clipB(s.body, 300), resp.status, clipB(resp.body, 200), s.exp.Desc))
			}
			return
		}
		if !is2xx(resp.status) {
			if s.exp.Either {
				verifh.Count("oracle.rejection-reported-as-error-status", 1)
				return
			}
			w.fail(clause, ep, witness+":status", fmt.Sprintf("%s %s body=%s -> %d %s; model expects success: %s", s.method, shown(s), clipB(s.body, 300), resp.status, clipB(resp.body, 200), s.exp.Desc))
			return
		}
		verifh.Count("oracle.answers-compared-with-library", 1)
		if msg := guardedCheck(s.exp.Check, resp.body); msg != "" {
			w.fail(clause, ep, witness, fmt.Sprintf("%s %s body=%s -> %d %s: %s; model: %s", s.method, shown(s), clipB(s.body, 300), resp.status, clipB(resp.body, 200), msg, s.exp.Desc))
			return
		}
		if ep == "/otp/secret" && s.seq {
			w.checkSecretBytes(s, resp)
		}
	case "non2xx":
		verifh.Count("oracle.expect-failure-status", 1)
		if is2xx(resp.status) {
			w.fail("status-distinguishes-failure", ep, "2xx-for-broken-request:"+s.req.Class, fmt.Sprintf("%s %s body=%q -> %d %s", s.method, s.path, clipB(s.body, 300), resp.status, clipB(resp.body, 200)))
		}
	case "any":
		verifh.Count("oracle.any-status-shape-checked", 1)
		if is2xx(resp.status) && s.method != "HEAD" && s.req.Raw == "" {
			if msg := shapeOK(s.path, resp.body); msg != "" {
				w.fail("status-distinguishes-failure", ep, "2xx-without-success-shape:"+s.req.Class, fmt.Sprintf("%s %s body=%q -> %d %s: %s", s.method, s.path, clipB(s.body, 300), resp.status, clipB(resp.body, 200), msg))
			}
		}
	}
}

func verifhHash(l []string) string { return fmt.Sprintf("%x", verifh.Hash64(strings.Join(l, "\n"))) }

func fieldMask(body []byte) string {
	var m map[string]json.RawMessage
	if json.Unmarshal(body, &m) != nil {
		return "-"
	}
	keys := make([]string, 0, len(m))
	for k := range m {
		keys = append(keys, k[:1])
	}
	return fmt.Sprint(len(keys))
}

// calibrate observes, once per run and before the server exists, how the
// library's own RandomSecret behaves on the simulated source: "stateless and
// faithful" means the secret is exactly the bytes the source delivered during
// the call. Only then is the strict clause of checkSecretBytes applied. A
// library whose generator prefetches (correct) or mangles bytes (C08's
// business) is not judged through the REST endpoint beyond the shape of the
// answer: the endpoint can only be asked to reflect the library.
func (w *world) calibrate() {
	w.strictSecret = false
	defer func() {
		_ = recover()
		verifrt.ResetMeter(0)
	}()
	verifrt.ResetMeter(workCap)
	for _, algo := range []otp.Algorithm{otp.SHA1, otp.SHA512} {
		from := len(w.rd.Log)
		sec, err := otp.RandomSecret(algo)
		if err != nil {
			return
		}
		var got []byte
		for _, rec := range w.rd.Log[from:] {
			for i := 0; i < rec.N; i++ {
				got = append(got, w.rd.ByteAt(rec.Off+uint64(i)))
			}
		}
		dec, derr := otp.DecodeSecret(sec)
		if derr != nil || !bytes.Equal(dec, got) {
			verifh.Count("skip.library-secret-generator-not-stateless-faithful", 1)
			return
		}
	}
	w.strictSecret = true
}

// checkSecretBytes: with a library generator observed to be stateless and
// faithful (calibrate), a sequential /otp/secret answer must be exactly the
// bytes the random source delivered while this request was served.
func (w *world) checkSecretBytes(s *sent, resp *response) {
	if !w.strictSecret {
		return
	}
	var g struct {
		Secret string `json:"secret"`
	}
	if json.Unmarshal(resp.body, &g) != nil {
		return
	}
	var got []byte
	for _, rec := range w.rd.Log[s.secretAt:] {
		for i := 0; i < rec.N; i++ {
			got = append(got, w.rd.ByteAt(rec.Off+uint64(i)))
		}
	}
	_, q, _ := strings.Cut(s.path, "?")
	algo := otp.SHA1
	for _, kv := range strings.Split(q, "&") {
		if k, v, _ := strings.Cut(kv, "="); k == "algorithm" {
			algo = mAlgo(&v)
		}
	}
	size := map[otp.Algorithm]int{otp.SHA1: 20, otp.SHA256: 32, otp.SHA512: 64}[algo]
	if len(got) != size {
		// other requests (earlier ones queued on a stalled connection, retries) drew
		// from the stream in the same interval
		verifh.Count("skip.secret-stream-shared-with-other-requests", 1)
		return
	}
	dec, err := otp.DecodeSecret(g.Secret)
	if err != nil {
		return // shape is judged by the model
	}
	verifh.Count("oracle.secret-compared-with-source-bytes(library calibrated)", 1)
	if !bytes.Equal(dec, got) {
		// before blaming the endpoint: what does the library itself do on exactly this
		// stream state (same position, same chunking)? If it is not faithful here
		// either, that is C08's business, and if it returns what the endpoint
		// returned, the endpoint reflects the library.
		var sec2 string
		var err2 error
		clone := w.rd.CloneAt(s.rdPos, s.rdCpos)
		func() {
			verifrt.ResetMeter(workCap)
			saved := rand.Reader
			rand.Reader = clone
			defer func() {
				rand.Reader = saved
				if p := recover(); p != nil {
					err2 = fmt.Errorf("panic: %v", p)
				}
				verifrt.ResetMeter(0)
			}()
			sec2, err2 = otp.RandomSecret(algo)
		}()
		var got2 []byte
		for _, rec := range clone.Log {
			for i := 0; i < rec.N; i++ {
				got2 = append(got2, clone.ByteAt(rec.Off+uint64(i)))
			}
		}
		dec2, derr := otp.DecodeSecret(sec2)
		if err2 != nil || derr != nil || sec2 == g.Secret || !bytes.Equal(dec2, got2) {
			verifh.Count("skip.library-secret-generator-not-stateless-faithful", 1)
			return
		}
		w.fail("answer==library", "/otp/secret", "secret-not-the-library's", fmt.Sprintf("secret %q decodes to %x, but the library's generator (observed stateless and faithful on this stream) was given %x while this request was served", g.Secret, dec, got))
	}
}

// await makes sure every request that is owed a response on cc got one.
func (w *world) await(cc *clientConn) {
	w.harvest(cc)
	if w.viol != nil {
		return
	}
	owed := func() *sent {
		for _, s := range cc.pending {
			if s.judge {
				return s
			}
		}
		return nil
	}
	waited := time.Duration(0)
	for owed() != nil && !cc.readEnded() && !cc.dirty && waited < responseBound {
		w.sleep(time.Second)
		waited += time.Second
		synctest.Wait()
		w.harvest(cc)
		if w.viol != nil {
			return
		}
	}
	s := owed()
	if s == nil {
		return
	}
	if cc.readEnded() || cc.writeFailed() || cc.dirty {
		// server-initiated close (MaxRequestsPerConn, idle timeout, restart,
		// per-IP limit): a real client reconnects and resends; the resend is owed
		pend := cc.pending
		cc.pending = nil
		for _, p := range pend {
			if p.judge && !p.retried && w.prop != "" {
				verifh.Count("stat.retry-after-server-close", 1)
				w.retry(p)
				if w.viol != nil {
					return
				}
			}
		}
		return
	}
	if w.prop == "C19" || s.req.Class == "good" {
		clause := "bounded-response"
		if w.prop == "C18" {
			clause = "answer==library"
		}
		w.fail(clause, strings.SplitN(s.path, "?", 2)[0], "no-response-within-60s:"+s.req.Class, fmt.Sprintf("%s %s body=%q complete at fake %d, connection open and read, no complete response after %v of fake time", s.method, s.path, clipB(s.body, 300), s.at.Unix(), responseBound))
	}
}

func (w *world) retry(p *sent) {
	if w.stopped {
		return
	}
	cc := w.open(1000+w.nextID, probeIPBase+w.nextID%40)
	r := *p.req
	r.Close = true
	s, wire := w.prepare(cc, &r, p.role)
	s.body = p.body // same bytes (code already substituted)
	if r.Raw == "" {
		wire = buildHTTP(p.method, p.path, p.body, true, p.req.CType, p.req.Query)
	}
	s.retried = true
	w.deliver(cc, s, wire, nil, nil, 0)
	s.seq = false
	w.await2(cc)
	cc.close()
}

// await2: like await but without a further retry.
func (w *world) await2(cc *clientConn) {
	w.harvest(cc)
	waited := time.Duration(0)
	for len(cc.pending) > 0 && cc.pending[0].judge && !cc.readEnded() && waited < responseBound && w.viol == nil {
		w.sleep(time.Second)
		waited += time.Second
		synctest.Wait()
		w.harvest(cc)
	}
	if w.viol != nil || len(cc.pending) == 0 || !cc.pending[0].judge {
		return
	}
	s := cc.pending[0]
	if w.prop == "C19" || s.req.Class == "good" {
		clause := "bounded-response"
		if w.prop == "C18" {
			clause = "answer==library"
		}
		why := "no complete response within 60 s of fake time"
		if cc.readEnded() {
			why = "the server closed the fresh connection without answering"
		}
		w.fail(clause, strings.SplitN(s.path, "?", 2)[0], "no-response-on-fresh-connection:"+s.req.Class, fmt.Sprintf("%s %s body=%q resent on a fresh connection: %s", s.method, s.path, clipB(s.body, 300), why))
	}
}

// outstanding counts requests that were completely sent and not yet answered, on any connection.
func (w *world) outstanding() int {
	n := 0
	for _, cc := range w.all {
		if cc.closed {
			continue
		}
		for _, s := range cc.pending {
			if s.complete {
				n++
			}
		}
	}
	return n
}

func (w *world) checkTrip(ev *Event, what string) {
	verifrt.SetStall(0, 0)
	if verifrt.Tripped() {
		if w.prop == "C19" {
			w.fail("bounded-work", what, "work-cap", fmt.Sprintf("serving event %d (%s) executed more than %d instrumented statements: work unbounded in a request parameter; request: %s", w.evIdx, ev.Kind, workCap, reqDesc(ev.Req)))
		} else {
			verifh.Count("skip.work-cap-trip(not judged by C18)", 1)
		}
	}
	verifrt.ResetMeter(0)
}

// shown: the path as sent, with the decorations that must not matter.
func shown(s *sent) string {
	p := s.path
	if s.req != nil {
		if s.req.Query != "" && !strings.Contains(p, "?") {
			p += "?" + s.req.Query
		}
		if s.req.CType != "" {
			p += " [Content-Type: " + s.req.CType + "]"
		}
	}
	return p
}

func reqDesc(r *Req) string {
	if r == nil {
		return "-"
	}
	return fmt.Sprintf("%s %s %s", r.Method, r.Path, clipB([]byte(r.Body), 300))
}

func (w *world) doReq(ev *Event, cc *clientConn, r *Req, role string, cuts []int, gaps []int64, abortAt int, seq bool) {
	s, wire := w.prepare(cc, r, role)
	s.seq = seq
	w.deliver(cc, s, wire, cuts, gaps, abortAt)
	if abortAt > 0 && cc.closed {
		return
	}
	w.await(cc)
	ep := strings.SplitN(r.Path, "?", 2)[0]
	w.checkTrip(ev, ep)
}

func (w *world) probe(ev *Event, cc *clientConn) {
	if ev.PReq == nil || w.viol != nil || w.prop != "C19" {
		return
	}
	// same connection, if the server left it open and the client is not at fault
	if cc != nil && !cc.closed && !cc.dirty && !cc.readEnded() && !cc.writeFailed() {
		verifh.Count("probe.same-connection-probe", 1)
		w.doReq(ev, cc, ev.PReq, "probe-same-conn", nil, nil, 0, false)
		if w.viol != nil {
			return
		}
	}
	verifh.Count("probe.fresh-connection-probe", 1)
	pc := w.open(2000+w.nextID, probeIPBase+w.nextID%40)
	w.doReq(ev, pc, ev.PReq, "probe-fresh-conn", nil, nil, 0, false)
	pc.close()
}

func (w *world) writePending(ev *Event) {
	if w.pendingPath == "" {
		return
	}
	// if the process dies while serving this event, this file is the witness
	pl := *w.plan
	pl.Events = w.plan.Events[:w.evIdx+1]
	pb, _ := json.Marshal(pl)
	ep := "-"
	if ev.Req != nil {
		ep = strings.SplitN(ev.Req.Path, "?", 2)[0]
	}
	detail := fmt.Sprintf("the server process died while serving event %d (%s): %s", w.evIdx, ev.Kind, reqDesc(ev.Req))
	if ev.Kind == "start" {
		ep, detail = "start", "the process died while the service was being constructed and started (NewServer / Serve)"
	}
	v := verifh.Violation{Property: w.prop, Clause: "process-survives", Op: ep, Witness: "process-crash", Detail: detail}
	ff := verifh.FailFile{Property: w.prop, World: "C", Signature: v.Signature(), Violation: v, Plan: pb, Crash: true}
	ff.Seed, ff.WorkerSeed, ff.Checks, ff.RunIndex = verifh.HistoryInfo()
	b, _ := json.Marshal(ff)
	_ = os.WriteFile(w.pendingPath, b, 0o644)
}

func (w *world) run() {
	rd := &verifrt.Reader{Kind: w.plan.ReaderKind, Seed: w.plan.ReaderSeed, Chunks: w.plan.Chunks, Shared: true}
	w.rd = rd
	old := rand.Reader
	rand.Reader = rd
	defer func() { rand.Reader = old }()
	verifrt.SetShared(true)
	defer verifrt.SetShared(false)
	verifrt.ResetMeter(0)

	if w.plan.StartJumpS > 0 {
		w.sleep(time.Duration(w.plan.StartJumpS) * time.Second)
	}
	w.calibrate()
	// a service that cannot even be constructed and started dies here: that, too, is a witness (C19)
	w.evIdx = -1
	if w.prop == "C19" {
		w.writePending(&Event{Kind: "start"})
	}
	w.startServer()
	synctest.Wait()

	for i := range w.plan.Events {
		if w.viol != nil {
			break
		}
		ev := &w.plan.Events[i]
		w.evIdx = i
		progress.Add(1)
		if w.prop == "C19" {
			op := "-"
			if ev.Req != nil {
				op = strings.SplitN(ev.Req.Path, "?", 2)[0]
			}
			hangInfo.Store(&hangWitness{prop: w.prop, plan: w.plan, ev: i, desc: fmt.Sprintf("event %d (%s): %s", i, ev.Kind, reqDesc(ev.Req)), op: op})
		}
		if w.prop == "C19" {
			w.writePending(ev)
		}
		switch ev.Kind {
		case "req":
			cc := w.usable(ev.Conn, ev.IP, ev.Fresh)
			if ev.StallAt > 0 && w.outstanding() == 0 {
				// slow / descheduled handler: the goroutine serving this request sleeps
				// (fake time) at its StallAt-th statement. Only when no other request is
				// in flight: a goroutine that sleeps while holding a lock another handler
				// wants would wedge the bubble (a lock wait is not "durably blocked", so
				// fake time could never advance) - an artefact of the simulation, not of
				// the code under test.
				w.stallAt, w.stallDur = uint64(ev.StallAt), time.Duration(ev.StallMs)*time.Millisecond+time.Duration(ev.StallNs)
				before := verifrt.Stalls.Load()
				w.doReq(ev, cc, ev.Req, "main", ev.Cuts, ev.GapMs, ev.AbortAt, true)
				if verifrt.Stalls.Load() > before {
					verifh.Count("fault.handler-stalled-mid-request", 1)
					// nothing else may be served until the stalled handler has woken up and
					// finished (it may be holding a lock), whether or not its answer is awaited
					w.sleep(w.stallDur + time.Millisecond)
					synctest.Wait()
					w.harvest(cc)
				}
				w.stallAt, w.stallDur = 0, 0
				verifrt.SetStall(0, 0)
			} else {
				w.doReq(ev, cc, ev.Req, "main", ev.Cuts, ev.GapMs, ev.AbortAt, true)
			}
			if ev.Req.Class != "good" {
				verifh.Count("fault.attack:"+ev.Req.Class, 1)
			}
			if ev.Probe {
				w.probe(ev, cc)
			}
		case "chain":
			cc := w.usable(ev.Conn, ev.IP, false)
			w.lastCode[cc.id] = "000000"
			w.doReq(ev, cc, ev.Req, "main", nil, nil, 0, true)
			if w.viol == nil && !cc.closed && !cc.readEnded() {
				verifh.Count("probe.generate-then-validate-chain", 1)
				w.doReq(ev, cc, ev.PReq, "main", nil, nil, 0, true)
			}
		case "twin":
			cc := w.usable(ev.Conn, ev.IP, false)
			verifh.Count("probe.concatenation-twin-requests", 1)
			w.doReq(ev, cc, ev.Req, "main", nil, nil, 0, true)
			if w.viol == nil {
				if cc.closed || cc.readEnded() || cc.writeFailed() || cc.dirty {
					cc = w.open(ev.Conn, ev.IP)
				}
				ev2 := *ev
				ev2.Req = ev.PReq
				w.doReq(&ev2, cc, ev.PReq, "main", nil, nil, 0, true)
			}
		case "sleep":
			if ev.SleepMs >= 30000 {
				verifh.Count("fault.idle>=IdleTimeout", 1)
			}
			if ev.SleepMs >= 3600_000 {
				verifh.Count("fault.clock-jump(hours)", 1)
			}
			w.sleep(time.Duration(ev.SleepMs) * time.Millisecond)
			synctest.Wait()
			for _, cc := range w.all { // slice order, never map order
				if !cc.closed {
					w.harvest(cc)
				}
			}
		case "close":
			if cc := w.slots[ev.Conn]; cc != nil && !cc.closed {
				cc.close()
				verifh.Count("fault.client-closes-connection", 1)
				synctest.Wait()
			}
		case "pause":
			if cc := w.slots[ev.Conn]; cc != nil && !cc.closed {
				cc.setPause(true)
				cc.dirty, cc.dirtyWhy = true, "client does not read"
				verifh.Count("fault.client-never-reads", 1)
			}
		case "resume":
			if cc := w.slots[ev.Conn]; cc != nil && !cc.closed {
				cc.setPause(false)
				synctest.Wait()
				w.harvest(cc)
			}
		case "restart":
			verifh.Count("fault.graceful-stop+restart", 1)
			w.stopServer()
			for _, cc := range w.all {
				if !cc.closed {
					cc.dirty, cc.dirtyWhy = true, "server restarted"
				}
			}
			w.startServer()
			synctest.Wait()
		case "burst":
			verifh.Count("fault.burst-parallel-handlers", 1)
			type item struct {
				cc *clientConn
				s  *sent
			}
			var items []item
			verifrt.ResetMeter(workCap * uint64(len(ev.Burst)))
			verifrt.SetPreempt(uint64(ev.Preempt))
			logStart := len(w.rd.Log)
			for j := range ev.Burst {
				r := &ev.Burst[j]
				cc := w.open(3000+j, 100+j)
				s, wire := w.prepare(cc, r, "main")
				w.expect(s)
				s.at = time.Now()
				cc.pending = append(cc.pending, s)
				cc.send(wire)
				s.complete, s.judge = true, true
				cc.requests++
				items = append(items, item{cc, s})
			}
			synctest.Wait()
			verifrt.SetPreempt(0)
			if ev.Preempt > 0 {
				verifh.Count("fault.forced-handler-interleaving", 1)
			}
			for _, it := range items {
				w.await(it.cc)
				if w.viol != nil {
					break
				}
			}
			w.checkTripBurst(ev)
			_ = logStart
			for _, it := range items {
				it.cc.close()
			}
			synctest.Wait()
		case "manyreq":
			cc := w.open(ev.Conn, ev.IP)
			verifh.Count("fault.many-requests-on-one-connection", 1)
			if ev.N >= 100 {
				verifh.Count("probe.MaxRequestsPerConn-reached", 1)
			}
			if ev.AbortAt == 1 {
				// pipelined: all requests in one go
				verifh.Count("fault.pipelining", 1)
				var all []byte
				var ss []*sent
				for k := 0; k < ev.N; k++ {
					s, wire := w.prepare(cc, ev.Req, "main")
					w.expect(s)
					s.at = time.Now()
					s.complete, s.judge = true, true
					ss = append(ss, s)
					all = append(all, wire...)
				}
				verifrt.ResetMeter(workCap * uint64(ev.N))
				cc.pending = append(cc.pending, ss...)
				cc.requests += ev.N
				cc.send(all)
				synctest.Wait()
				w.await(cc)
				w.checkTripBurst(ev)
			} else {
				for k := 0; k < ev.N && w.viol == nil; k++ {
					if cc.closed || cc.readEnded() || cc.writeFailed() {
						cc = w.open(ev.Conn, ev.IP)
					}
					w.doReq(ev, cc, ev.Req, "main", nil, nil, 0, true)
				}
			}
		case "manyattack":
			verifh.Count("fault.sustained-attack", 1)
			cc := w.usable(ev.Conn, ev.IP, true)
			for k := 0; k < ev.N && w.viol == nil; k++ {
				if cc.closed || cc.readEnded() || cc.writeFailed() || cc.dirty {
					cc = w.open(ev.Conn, ev.IP)
				}
				w.doReq(ev, cc, ev.Req, "main", nil, nil, 0, true)
			}
			verifh.Count("fault.attack:"+ev.Req.Class, uint64(ev.N))
			w.probe(ev, cc)
		case "flood":
			verifh.Count("fault.connection-flood-from-one-IP", 1)
			ip := 50 + ev.IP
			var cs []*clientConn
			for k := 0; k < ev.N; k++ {
				cs = append(cs, w.open(4000+k, ip))
			}
			synctest.Wait()
			if ev.N > 50 {
				verifh.Count("probe.MaxConnsPerIP-exceeded", 1)
			}
			// while one address holds all these connections open, a client from another
			// address must still be served
			if w.prop == "C19" && w.viol == nil {
				verifh.Count("probe.probe-while-flood-connections-are-open", 1)
				pr := Req{Method: "GET", Path: "/ocra/suites", Class: "good"}
				pc := w.open(4998, 240+ev.IP)
				w.doReq(ev, pc, &pr, "probe-fresh-conn", nil, nil, 0, false)
				pc.close()
			}
			for _, c := range cs {
				c.dirty = true
				c.close()
			}
			synctest.Wait()
			delete(w.slots, 0)
			// after the flood ended a connection from the same address must be served again
			if w.prop == "C19" {
				pr := Req{Method: "GET", Path: "/ocra/suites", Class: "good"}
				pc := w.open(4999, ip)
				w.doReq(ev, pc, &pr, "probe-fresh-conn", nil, nil, 0, false)
				pc.close()
			}
		}
	}
	// settle: all faults stop; a last probe must be answered correctly
	if w.viol == nil && w.prop == "C19" {
		for _, cc := range w.all {
			cc.setPause(false)
		}
		w.sleep(2 * time.Second)
		synctest.Wait()
		if w.stopped {
			w.startServer()
			synctest.Wait()
		}
		pr := Req{Method: "POST", Path: "/hotp/generate", Body: `{"secret":"GEZDGNBVGY3TQOJQ","counter":7}`, Class: "good"}
		ev := &Event{Kind: "final-probe", Req: &pr}
		w.evIdx = len(w.plan.Events)
		pc := w.open(5000, 251)
		w.doReq(ev, pc, &pr, "probe-final", nil, nil, 0, false)
		verifh.Count("probe.final-probe-after-settle", 1)
	}
	// teardown
	for _, cc := range w.all {
		cc.close()
	}
	w.stopServer()
	time.Sleep(20 * time.Second) // lets fasthttp's worker-pool cleaner (15 s tick) exit
	synctest.Wait()
	if w.pendingPath != "" {
		_ = os.Remove(w.pendingPath)
	}
}

func (w *world) checkTripBurst(ev *Event) {
	if verifrt.Tripped() && w.prop == "C19" {
		w.fail("bounded-work", "burst", "work-cap", fmt.Sprintf("serving event %d (%s of %d requests) exceeded the statement budget", w.evIdx, ev.Kind, len(ev.Burst)+ev.N))
	}
	verifrt.ResetMeter(0)
}

type runInfo struct {
	nontriv bool
	log     []string
	simS    float64
}

// Run executes one plan inside a fresh synctest bubble.
func Run(t *testing.T, p *Plan, logOn bool) (v *verifh.Violation, info *runInfo) {
	w := &world{plan: p, prop: p.Prop, slots: map[int]*clientConn{}, lastCode: map[int]string{}, logOn: logOn}
	if fp := os.Getenv("VERIF_FAIL"); fp != "" && os.Getenv("VERIF_REPLAY") == "" {
		w.pendingPath = fp + ".pending"
	}
	info = &runInfo{}
	// every run starts from empty sync.Pools (two collections clear the victim
	// cache too): with one P the pool contents are then a function of this
	// run's own history, so a violation that needs pooled state replays
	runtime.GC()
	runtime.GC()
	runActive.Store(true)
	defer runActive.Store(false)
	func() {
		defer func() {
			if r := recover(); r != nil {
				if os.Getenv("VERIF_ISOLATED") != "" && strings.Contains(fmt.Sprint(r), "blocked goroutines remain") {
					// one process per run, used for trees whose goroutines outlive a run: that a
					// goroutine of the code under test is still parked when the bubble ends is expected
					verifh.Count("probe.goroutine-of-the-code-under-test-outlives-the-run", 1)
					return
				}
				verifh.HarnessError("bubble ended abnormally: %v", r)
			}
		}()
		synctest.Test(t, func(t *testing.T) {
			start := time.Now()
			w.run()
			// simulated time the service was exercised for (without the initial clock offset)
			info.simS = time.Since(start).Seconds() - float64(w.plan.StartJumpS)
		})
	}()
	verifh.AddSimTime(info.simS * 1e9)
	info.nontriv, info.log = w.nontriv, w.log
	return w.viol, info
}
