package worlda

import (
	"crypto/rand"
	"encoding/base32"
	"fmt"
	"net/url"
	"os"
	"runtime"
	"sort"
	"strings"
	"time"

	"github.com/ja7ad/otp"
	"github.com/ja7ad/otp/internal/verifh"
	"github.com/ja7ad/otp/internal/verifrt"
)

const workCap = 400_000

var raceBuild = os.Getenv("VERIF_VARIANT") == "race"

// ---------------------------------------------------------------------------
// arenas: [canary | data | spare capacity (canary) | canary]

type arena struct {
	buf, snap []byte
	s         []byte // what the library gets
}

func newArena(f Field, salt int) *arena {
	n := len(f.Data)
	pre, post := 16, 32
	spare := 0
	switch f.Shape {
	case 1:
		spare = f.Spare
	case 2:
		spare = 160
	}
	a := &arena{}
	if f.Shape == 3 && n == 0 {
		return a // nil slice
	}
	a.buf = make([]byte, pre+n+spare+post)
	for i := range a.buf {
		a.buf[i] = byte(0xA5^(i*7+salt)) | 1 // never zero
	}
	copy(a.buf[pre:], f.Data)
	switch f.Shape {
	case 2:
		a.s = a.buf[pre : pre+n : len(a.buf)] // capacity reaches the end of the array
	default:
		a.s = a.buf[pre : pre+n : pre+n+spare]
	}
	a.snap = append([]byte(nil), a.buf...)
	return a
}

// newAdjacent places two fields back to back in one array: the capacity of the
// first reaches over the data of the second (legal for a caller: two sub-slices
// of one receive buffer).
func newAdjacent(f1, f2 Field, salt int) (*arena, *arena) {
	n1, n2 := len(f1.Data), len(f2.Data)
	pre, post := 16, 48
	buf := make([]byte, pre+n1+n2+post)
	for i := range buf {
		buf[i] = byte(0x5A^(i*11+salt)) | 1
	}
	copy(buf[pre:], f1.Data)
	copy(buf[pre+n1:], f2.Data)
	snap := append([]byte(nil), buf...)
	a1 := &arena{buf: buf, snap: snap, s: buf[pre : pre+n1 : len(buf)]}
	a2 := &arena{buf: buf, snap: snap, s: buf[pre+n1 : pre+n1+n2 : len(buf)]}
	return a1, a2
}

//go:norace
func (a *arena) intact() bool {
	if len(a.buf) != len(a.snap) {
		return false
	}
	for i := range a.buf {
		if a.buf[i] != a.snap[i] {
			return false
		}
	}
	return true
}

//go:norace
func cloneStr(s string) string {
	b := make([]byte, len(s))
	for i := 0; i < len(s); i++ {
		b[i] = s[i]
	}
	return string(b)
}

//go:norace
func sameStr(a, b string) bool {
	if len(a) != len(b) {
		return false
	}
	for i := 0; i < len(a); i++ {
		if a[i] != b[i] {
			return false
		}
	}
	return true
}

//go:norace
func cloneBytes(s []byte) []byte {
	b := make([]byte, len(s))
	for i := range s {
		b[i] = s[i]
	}
	return b
}

//go:norace
func sameBytes(a, b []byte) bool {
	if len(a) != len(b) {
		return false
	}
	for i := range a {
		if a[i] != b[i] {
			return false
		}
	}
	return true
}

// ---------------------------------------------------------------------------
// prepared calls and results

type prepared struct {
	c       *Call
	secret  string
	param   *otp.Param // pointer handed to the library (nil, own or shared)
	ownSnap otp.Param
	own     bool
	t       time.Time
	code    string
	suite   otp.Suite
	cfg     otp.SuiteConfig
	cfgOK   bool
	arenas  [5]*arena
	u       *url.URL
	uSnap   string
	up      otp.URLParam
}

type result struct {
	vals     []any
	err      error
	panicked bool
	pval     any
	tripped  bool
	strs     []string // returned strings
	strSnap  []string
	bys      [][]byte
	bySnap   [][]byte
	done     bool
}

type taskState struct {
	id         int
	calls      []*prepared
	res        []result
	retainBad  int // index of first call whose retained result changed later (-1 none)
	retainAt   int
	arenaBad   int
	argBad     int
	defBad     int
	shArenaBad int
	shParamBad int
	finished   chan struct{}
}

type env struct {
	plan         *Plan
	sharedParams []*otp.Param
	sharedSnap   []otp.Param
	sharedArenas []*arena
	defH, defT   *otp.Param
	defHv, defTv otp.Param
}

func spell(secret []byte, spelling int) string {
	std := base32.StdEncoding.EncodeToString(secret)
	nopad := strings.TrimRight(std, "=")
	switch spelling {
	case 0:
		return std
	case 1:
		return nopad
	case 2:
		return strings.ToLower(nopad)
	case 3:
		b := []byte(nopad)
		for i := range b {
			if i%2 == 1 && b[i] >= 'A' && b[i] <= 'Z' {
				b[i] += 'a' - 'A'
			}
		}
		return string(b)
	case 4:
		return " \t" + nopad + "\n"
	case 5:
		return "  " + strings.ToLower(std) + " "
	default:
		return nopad + "!" // undecodable
	}
}

func buildSuite(sp SuiteSpec) (st otp.Suite) {
	defer func() {
		if recover() != nil {
			st = nil
		}
	}()
	cfg := otp.SuiteConfig{Raw: sp.Raw, Hash: otp.Algorithm(sp.Hash), Digits: sp.Digits, Challenge: otp.ChallengeFormat(sp.Challenge),
		IncludeCounter: sp.C, IncludeChallenge: sp.Q, IncludePassword: sp.P, IncludeSession: sp.S, IncludeTimestamp: sp.T,
		PasswordHash: otp.PasswordHashAlgorithm(sp.PHash), TimeStep: sp.TimeStep}
	switch sp.Mode {
	case "registered", "parsed":
		s, err := otp.NewRawSuite(sp.Name)
		if err != nil {
			return otp.SuiteConfig{}
		}
		return s
	case "newsuite":
		s, err := otp.NewSuite(cfg)
		if err != nil {
			return cfg
		}
		return s
	default:
		return cfg
	}
}

func (e *env) prepare(c *Call, salt int) *prepared {
	p := &prepared{c: c}
	p.secret = spell(c.Secret, c.Spell)
	switch {
	case c.PMode == 1:
		p.param = nil
	case c.PMode >= 2 && c.PMode-2 < len(e.sharedParams):
		p.param = e.sharedParams[c.PMode-2]
	default:
		p.own = true
		p.ownSnap = otp.Param{Digits: otp.Digits(c.Param.Digits), Algorithm: otp.Algorithm(c.Param.Algo), Period: uint(c.Param.Period), Skew: uint(c.Param.Skew)}
		cp := p.ownSnap
		p.param = &cp
	}
	p.t = time.Unix(c.Sec, c.Nsec).UTC()
	switch c.Op {
	case "GenerateOCRA", "ValidateOCRA", "InputValidate", "NewSuite", "SuiteValidate":
		p.suite = buildSuite(c.Suite)
		if p.suite == nil {
			p.suite = otp.SuiteConfig{}
		}
		func() {
			defer func() { _ = recover() }()
			p.cfg = p.suite.Config()
			p.cfgOK = true
		}()
		for i := 0; i < len(c.In); i++ {
			f := c.In[i]
			switch {
			case f.Shared > 0 && f.Shared-1 < len(e.sharedArenas):
				p.arenas[i] = e.sharedArenas[f.Shared-1]
			case f.Shape == 4 && i+1 < len(c.In) && c.In[i+1].Shared == 0:
				p.arenas[i], p.arenas[i+1] = newAdjacent(f, c.In[i+1], salt*5+i)
				i++
			default:
				p.arenas[i] = newArena(f, salt*5+i)
			}
		}
	}
	return p
}

func (p *prepared) input() otp.OCRAInput {
	return otp.OCRAInput{Counter: p.arenas[0].s, Challenge: p.arenas[1].s, Password: p.arenas[2].s, SessionInfo: p.arenas[3].s, Timestamp: p.arenas[4].s}
}

// prepCode computes (sequentially, on the driver) the code a Validate call submits.
func (e *env) prepCode(p *prepared) {
	c := p.c
	mangle := func(code string) string {
		switch c.CodeMode {
		case 1:
			if code == "" {
				return "1"
			}
			b := []byte(code)
			b[len(b)-1] = '0' + (b[len(b)-1]-'0'+1)%10
			return string(b)
		case 3:
			return c.Str
		}
		return code
	}
	verifrt.ResetMeter(workCap)
	defer func() { _ = recover(); verifrt.ResetMeter(0) }()
	switch c.Op {
	case "ValidateHOTP":
		ctr := c.Counter
		if c.CodeMode == 2 {
			ctr += 3
		}
		code, _ := otp.GenerateHOTP(p.secret, ctr, p.param)
		p.code = mangle(code)
	case "ValidateTOTP":
		t := p.t
		if c.CodeMode == 2 {
			t = t.Add(95 * time.Second)
		}
		code, _ := otp.GenerateTOTP(p.secret, t, p.param)
		p.code = mangle(code)
	case "ValidateOCRA":
		code, _ := otp.GenerateOCRA(p.secret, p.suite, p.input())
		p.code = mangle(code)
	case "ParseOTPAuthURL", "GenerateHOTPURL", "GenerateTOTPURL":
		p.up = otp.URLParam{Issuer: c.Str, AccountName: c.Str2, Secret: strings.TrimSpace(spell(c.Secret, 1)), Period: uint(c.Param.Period), Digits: otp.Digits(c.Param.Digits), Algorithm: otp.Algorithm(c.Param.Algo % 3)}
		if c.Op == "ParseOTPAuthURL" {
			up := p.up
			if up.Issuer == "" {
				up.Issuer = "I"
			}
			if up.AccountName == "" {
				up.AccountName = "a"
			}
			if up.Secret == "" {
				up.Secret = "GEZDGNBV"
			}
			var u *url.URL
			if c.N%2 == 0 {
				u, _ = otp.GenerateTOTPURL(up)
			} else {
				u, _ = otp.GenerateHOTPURL(up)
			}
			txt := "otpauth://totp/x:y?secret=GEZDGNBV"
			if u != nil {
				txt = u.String()
			}
			switch c.N {
			case 2:
				txt = strings.Replace(txt, "otpauth", "http", 1)
			case 3:
				txt = strings.Replace(txt, "digits=", "digits=x", 1)
			case 4:
				txt = strings.Replace(txt, "algorithm=SHA", "algorithm=MD", 1)
			case 5:
				txt = strings.Replace(txt, "%3A", "", 1)
				txt = strings.Replace(txt, ":", "", 2)
			case 6, 7: // opaque form (no authority): otpauth:totp/Label?...
				txt = strings.Replace(txt, "otpauth://", "otpauth:", 1)
			case 8:
				txt = strings.Replace(txt, "otpauth://", "OTPAUTH://", 1)
				txt = strings.Replace(txt, "://totp/", "://TOTP/", 1)
			case 9:
				txt = strings.Replace(txt, "otpauth://", "otpauth://user:pw@", 1) + "#frag"
			case 10:
				txt = strings.Replace(txt, "?", "/extra%2Fseg?", 1)
			case 11:
				txt = txt + "&digits=7&period=0&secret=&issuer=Other"
			}
			pu, err := url.Parse(txt)
			if err != nil {
				pu, _ = url.Parse("otpauth://totp/x:y?secret=GEZDGNBV")
			}
			p.u = pu
			p.uSnap = fmt.Sprintf("%#v|%#v", *pu, pu.User)
		}
	}
}

// exec performs the call. It runs inside a task goroutine during the
// concurrent phase: no fmt, no locks, nothing that synchronises with other tasks.
func (p *prepared) exec() (r result) {
	if p.c.Repeat > 1 {
		n := p.c.Repeat
		if raceBuild && n > 1100 {
			n = 1100 // the race build is ~10x slower per call
		}
		switch p.c.Op {
		case "GenerateHOTP", "GenerateTOTP", "GenerateOCRA", "ValidateHOTP", "ValidateTOTP", "ValidateOCRA", "NewRawSuite", "DecodeSecret", "ListSuites":
			for i := 1; i < n; i++ {
				verifrt.ResetMeter(workCap)
				_ = p.exec1()
			}
			verifrt.ResetMeter(workCap)
		}
	}
	return p.exec1()
}

func (p *prepared) exec1() (r result) {
	c := p.c
	defer func() {
		if v := recover(); v != nil {
			if _, ok := v.(verifrt.WorkCapTrip); ok {
				r.tripped = true
			} else if lim, ok := v.(verifrt.TooManyGoroutines); ok {
				verifh.HarnessError("%v", lim)
				r.tripped = true
			} else if d, ok := v.(verifrt.Deadlock); ok && d.PollingSelect {
				// may be the simulator's (two selects facing each other on an unbuffered channel): no verdict
				verifh.HarnessError("%v", d)
				r.tripped = true
			} else {
				r.panicked, r.pval = true, v
			}
		}
		r.done = true
	}()
	str := func(s string, err error) {
		r.vals, r.err = []any{s}, err
		r.strs = append(r.strs, s)
	}
	bl := func(b bool, err error) { r.vals, r.err = []any{b}, err }
	by := func(b []byte, err error) {
		r.vals, r.err = []any{b}, err
		r.bys = append(r.bys, b)
	}
	switch c.Op {
	case "GenerateHOTP":
		str(otp.GenerateHOTP(p.secret, c.Counter, p.param))
	case "GenerateTOTP":
		str(otp.GenerateTOTP(p.secret, p.t, p.param))
	case "GenerateOCRA":
		str(otp.GenerateOCRA(p.secret, p.suite, p.input()))
	case "ValidateHOTP":
		bl(otp.ValidateHOTP(p.secret, p.code, c.Counter, p.param))
	case "ValidateTOTP":
		bl(otp.ValidateTOTP(p.secret, p.code, p.t, p.param))
	case "ValidateOCRA":
		bl(otp.ValidateOCRA(p.secret, p.code, p.suite, p.input()))
	case "InputValidate":
		r.err = p.input().Validate(p.cfg)
	case "NewRawSuite":
		s, err := otp.NewRawSuite(c.Str)
		r.err = err
		if s != nil {
			r.vals = []any{s.Config(), s.String(), s.Validate()}
			r.strs = append(r.strs, s.String())
		}
	case "NewSuite":
		s, err := otp.NewSuite(p.cfg)
		r.err = err
		if s != nil {
			r.vals = []any{s.Config(), s.String(), s.Validate()}
		}
	case "SuiteValidate":
		r.err = p.cfg.Validate()
	case "ListSuites":
		l := otp.ListSuites()
		r.vals = []any{l}
		r.strs = append(r.strs, l...)
	case "IsKnownSuite":
		r.vals = []any{otp.IsKnownSuite(c.Str)}
	case "SuiteConfigFromRaws":
		cfg := otp.SuiteConfigFromRaws(c.Str)
		r.vals = []any{cfg}
		r.strs = append(r.strs, cfg.Raw)
	case "DecodeSecret":
		by(otp.DecodeSecret(p.secret))
	case "GenerateHOTPURL":
		u, err := otp.GenerateHOTPURL(p.up)
		r.vals, r.err = []any{u}, err
	case "GenerateTOTPURL":
		u, err := otp.GenerateTOTPURL(p.up)
		r.vals, r.err = []any{u}, err
	case "ParseOTPAuthURL":
		up, err := otp.ParseOTPAuthURL(p.u)
		r.vals, r.err = []any{up}, err
		if up != nil {
			r.strs = append(r.strs, up.Issuer, up.AccountName, up.Secret)
		}
	case "RandomSecret":
		str(otp.RandomSecret(otp.Algorithm(c.Param.Algo)))
	case "ParseDecimalToBigEndian8":
		by(otp.ParseDecimalToBigEndian8(c.Str))
	case "ParseDecimal64BigEndian":
		by(otp.ParseDecimal64BigEndian(c.Str))
	case "ParseDecimalChallengeRFC6287":
		by(otp.ParseDecimalChallengeRFC6287(c.Str))
	case "LeftPadHex":
		s := otp.LeftPadHex(c.Str, c.N)
		str(s, nil)
	case "ParseHexTimestamp":
		by(otp.ParseHexTimestamp(c.Str))
	case "To8ByteBigEndian":
		by(otp.To8ByteBigEndian(c.Counter), nil)
	case "HexInputToOCRA":
		f := func(bit int) string {
			if c.N&(1<<bit) != 0 {
				return c.Str
			}
			return ""
		}
		in, err := otp.HexInputToOCRA(f(0), f(1), f(2), f(3), f(4))
		r.vals, r.err = []any{in}, err
		r.bys = append(r.bys, in.Counter, in.Challenge, in.Password, in.SessionInfo, in.Timestamp)
	case "SuiteChurn":
		n := int(c.Counter)
		first := make([]otp.SuiteConfig, n)
		firstErr := make([]bool, n)
		bad := -1
		for pass := 0; pass < 2 && bad < 0; pass++ {
			for i := 0; i < n; i++ {
				s, err := otp.NewRawSuite(churnName(c.N + i))
				var cfg otp.SuiteConfig
				if s != nil && err == nil {
					cfg = s.Config()
				}
				if pass == 0 {
					first[i], firstErr[i] = cfg, err != nil
				} else if cfg != first[i] || (err != nil) != firstErr[i] {
					bad = i
					break
				}
			}
		}
		if bad >= 0 {
			r.vals = []any{"churn-mismatch", churnName(c.N + bad)}
		} else {
			r.vals = []any{"churn-ok"}
		}
	case "FromStr":
		r.vals = []any{otp.DigitsFromStr(c.Str), otp.AlgorithmFromStr(c.Str), otp.Algorithm(c.N).String()}
	}
	return r
}

// churnName: the i-th of ~3 700 distinct well-formed unregistered suite names (no fmt: runs inside tasks).
func churnName(i int) string {
	if i < 0 {
		i = -i
	}
	hash := []string{"SHA1", "SHA256", "SHA512"}[i%3]
	dig := []string{"4", "5", "6", "7", "8", "9", "10"}[(i/3)%7]
	n := 1 + (i/21)%59
	unit := []string{"S", "M", "H"}[(i/(21*59))%3]
	num := []byte{byte('0' + n/10), byte('0' + n%10)}
	if n < 10 {
		num = num[1:]
	}
	return "OCRA-1:HOTP-" + hash + "-" + dig + ":QN08-T" + string(num) + unit
}

// canon renders a result for comparison (driver only; uses fmt).
func canon(op string, r *result) string {
	if r.tripped {
		return "WORK-CAP"
	}
	if r.panicked {
		return fmt.Sprintf("PANIC:%v", r.pval)
	}
	var sb strings.Builder
	for vi, v := range r.vals {
		switch x := v.(type) {
		case string:
			// judge the value as it was when the call returned; later changes are
			// the business of the returned-value-stable clause
			if vi == 0 && len(r.vals) == 1 && len(r.strSnap) == 1 {
				x = r.strSnap[0]
			}
			fmt.Fprintf(&sb, "%q;", x)
		case []byte:
			if vi == 0 && len(r.vals) == 1 && len(r.bySnap) == 1 {
				x = r.bySnap[0]
			}
			fmt.Fprintf(&sb, "%x;", x)
		case []string:
			l := append([]string(nil), x...)
			sort.Strings(l)
			fmt.Fprintf(&sb, "%q;", l)
		case *url.URL:
			if x == nil {
				sb.WriteString("<nil url>;")
			} else {
				fmt.Fprintf(&sb, "%s;", x.String())
			}
		case *otp.URLParam:
			if x == nil {
				sb.WriteString("<nil urlparam>;")
			} else {
				fmt.Fprintf(&sb, "%#v;", *x)
			}
		case error:
			fmt.Fprintf(&sb, "err(%v);", x)
		default:
			fmt.Fprintf(&sb, "%#v;", x)
		}
	}
	if r.err != nil {
		fmt.Fprintf(&sb, "ERR:%v", r.err)
	}
	if op == "RandomSecret" {
		// the value depends on the stream position; C08 judges it
		if len(r.strs) == 1 && r.err == nil {
			return fmt.Sprintf("secret(len=%d)", len(r.strs[0]))
		}
	}
	return sb.String()
}

// ---------------------------------------------------------------------------
// task bodies

//go:norace
func (t *taskState) retain(i int) {
	r := &t.res[i]
	for _, s := range r.strs {
		r.strSnap = append(r.strSnap, cloneStr(s))
	}
	for _, b := range r.bys {
		r.bySnap = append(r.bySnap, cloneBytes(b))
	}
}

//go:norace
func (t *taskState) checkRetained(upto, at int) {
	if t.retainBad >= 0 {
		return
	}
	for i := 0; i <= upto; i++ {
		r := &t.res[i]
		for k := range r.strs {
			if k < len(r.strSnap) && !sameStr(r.strs[k], r.strSnap[k]) {
				t.retainBad, t.retainAt = i, at
				return
			}
		}
		for k := range r.bys {
			if k < len(r.bySnap) && !sameBytes(r.bys[k], r.bySnap[k]) {
				t.retainBad, t.retainAt = i, at
				return
			}
		}
	}
}

//go:norace
func (e *env) checkArgs(t *taskState, i int) {
	p := t.calls[i]
	for _, a := range p.arenas {
		if a != nil && !a.intact() && t.arenaBad < 0 {
			t.arenaBad = i
		}
	}
	for _, a := range e.sharedArenas {
		if !a.intact() && t.shArenaBad < 0 {
			t.shArenaBad = i
		}
	}
	if p.own && p.param != nil && *p.param != p.ownSnap && t.argBad < 0 {
		t.argBad = i
	}
	for k, sp := range e.sharedParams {
		if *sp != e.sharedSnap[k] && t.shParamBad < 0 {
			t.shParamBad = i
		}
	}
	if (otp.DefaultHOTPParam != e.defH || otp.DefaultTOTPParam != e.defT || *otp.DefaultHOTPParam != e.defHv || *otp.DefaultTOTPParam != e.defTv) && t.defBad < 0 {
		t.defBad = i
	}
}

//go:norace
func scribble(r *result) {
	for _, b := range r.bys {
		for i := range b {
			b[i] = 0xEE
		}
	}
	for _, v := range r.vals {
		switch x := v.(type) {
		case []string:
			for i := range x {
				x[i] = "scribbled"
			}
		case *otp.URLParam:
			if x != nil {
				*x = otp.URLParam{Issuer: "scribbled", Digits: 99, Period: 99999}
			}
		case *url.URL:
			if x != nil {
				*x = url.URL{Scheme: "scribbled"}
			}
		case otp.OCRAInput:
			for _, b := range [][]byte{x.Counter, x.Challenge, x.Password, x.SessionInfo, x.Timestamp} {
				for i := range b {
					b[i] = 0xEE
				}
			}
		}
	}
}

func (e *env) taskBody(t *taskState) {
	verifrt.TaskBegin(t.id)
	for i, p := range t.calls {
		verifrt.SetCurCall(t.id, int32(i))
		verifrt.ResetMeter(workCap)
		t.res[i] = p.exec()
		verifrt.SetCurCall(t.id, -1)
		t.retain(i)
		t.checkRetained(i, i)
		e.checkArgs(t, i)
		if p.c.Scribble {
			// the caller owns what it was given back: overwrite it
			snapS, snapB := t.res[i].strSnap, t.res[i].bySnap
			scribble(&t.res[i])
			t.res[i].strs, t.res[i].bys = snapS, snapB // retained copies stay comparable
		}
	}
	verifrt.ResetMeter(0)
	verifrt.TaskEnd(t.id)
	close(t.finished)
}

func (e *env) advBody(t *taskState, ops []AdvOp, audit func() string, auditBad *string) {
	verifrt.TaskBegin(t.id)
	for _, op := range ops {
		switch op.Kind {
		case "scribble":
			x := verifrt.PoolTake(op.Pool, op.Which)
			switch b := x.(type) {
			case *[8]byte:
				for i := range b {
					b[i] = op.Byte
				}
			case *[]byte:
				full := (*b)[:cap(*b)]
				for i := range full {
					full[i] = op.Byte ^ byte(i)
				}
				n := op.Len
				if n > cap(*b) {
					n = cap(*b)
				}
				*b = full[:n]
			}
			if x != nil {
				verifrt.PoolGive(op.Pool, x)
			}
		case "drain":
			verifrt.PoolDrainAll()
		case "gc":
			runtime.GC()
		case "audit":
			if s := audit(); s != "" && *auditBad == "" {
				*auditBad = s
			}
		}
		verifrt.SchedPoint(-7)
		verifrt.SchedPoint(-7)
	}
	verifrt.TaskEnd(t.id)
	close(t.finished)
}

// ---------------------------------------------------------------------------
// registry snapshot

type registrySnap struct {
	names []string
	cfgs  map[string]otp.SuiteConfig
	algo  [256]string
}

func takeRegistry() registrySnap {
	var s registrySnap
	s.names = otp.ListSuites()
	sort.Strings(s.names)
	s.cfgs = map[string]otp.SuiteConfig{}
	for _, n := range s.names {
		s.cfgs[n] = otp.SuiteConfigFromRaws(n)
	}
	for i := 0; i < 256; i++ {
		s.algo[i] = otp.Algorithm(i).String()
	}
	return s
}

// compare returns "" when the registry still equals the snapshot. It is called
// on the driver and from the adversary task (library reads under the scheduler);
// it deliberately avoids fmt on the happy path.
func (s *registrySnap) compare() string {
	l := otp.ListSuites()
	sort.Strings(l)
	if len(l) != len(s.names) {
		return "ListSuites length changed"
	}
	for i := range l {
		if l[i] != s.names[i] {
			return "ListSuites content changed: " + l[i]
		}
	}
	for _, n := range s.names {
		if otp.SuiteConfigFromRaws(n) != s.cfgs[n] {
			return "SuiteConfigFromRaws changed for " + n
		}
		if !otp.IsKnownSuite(n) {
			return "IsKnownSuite false for " + n
		}
	}
	for i := 0; i < 256; i++ {
		if otp.Algorithm(i).String() != s.algo[i] {
			return "Algorithm.String changed"
		}
	}
	if len(l) == len(baseRegistry.names) && otp.IsKnownSuite("OCRA-1:HOTP-SHA1-6:QN08-T1M-not-registered") {
		return "IsKnownSuite true for an unregistered name"
	}
	return ""
}

var (
	baseRegistry = takeRegistry()
	baseDefH     = otp.DefaultHOTPParam
	baseDefT     = otp.DefaultTOTPParam
	baseDefHv    = *otp.DefaultHOTPParam
	baseDefTv    = *otp.DefaultTOTPParam
)

// ---------------------------------------------------------------------------
// run

type runInfo struct {
	nontrivial bool
	traceHash  uint64
	switches   uint64
	log        []string
}

// drv runs driver-side code that calls the library ("alone"). When the library
// starts goroutines of its own, even that must happen inside a scheduler run
// (one caller, no forced switches), or those goroutines would run outside the
// baton discipline.
func drv(f func()) {
	if verifrt.LibGoroutines {
		verifrt.RunAlone(f)
		return
	}
	f()
}

func Run(pl *Plan, logOn bool) (*verifh.Violation, *runInfo) {
	info := &runInfo{}
	prop := pl.Prop
	fail := func(clause, op, witness, detail string) (*verifh.Violation, *runInfo) {
		return &verifh.Violation{Property: prop, Clause: clause, Op: op, Witness: witness, Detail: detail}, info
	}
	// defaults as this run found them (like the registry: what this run's own calls
	// change is attributed to this run and replays from its plan alone)
	e := &env{plan: pl, defH: otp.DefaultHOTPParam, defT: otp.DefaultTOTPParam}
	if e.defH != nil {
		e.defHv = *e.defH
	}
	if e.defT != nil {
		e.defTv = *e.defT
	}
	// registry as this run found it: only what this run's own calls change is
	// attributed to it (and therefore replays from its plan alone)
	var startReg registrySnap
	drv(func() { startReg = takeRegistry() })
	for _, sp := range pl.SharedParams {
		p := otp.Param{Digits: otp.Digits(sp.Digits), Algorithm: otp.Algorithm(sp.Algo), Period: uint(sp.Period), Skew: uint(sp.Skew)}
		cp := p
		e.sharedParams = append(e.sharedParams, &cp)
		e.sharedSnap = append(e.sharedSnap, p)
	}
	for i, f := range pl.SharedFields {
		e.sharedArenas = append(e.sharedArenas, newArena(f, 1000+i))
	}
	rd := &verifrt.Reader{Kind: pl.Reader.Kind, Seed: pl.Reader.Seed, Chunks: pl.Reader.Chunks}
	oldReader := rand.Reader
	rand.Reader = rd
	defer func() { rand.Reader = oldReader }()

	// sequential history before the concurrent phase
	drv(func() {
		for i := range pl.Warm {
			p := e.prepare(&pl.Warm[i], 5000+i)
			e.prepCode(p)
			verifrt.ResetMeter(workCap)
			_ = p.exec()
		}
		verifrt.ResetMeter(0)
	})

	// prepare tasks + reference run (each distinct call executed alone)
	var tasks []*taskState
	ref := make([][]string, len(pl.Tasks))
	drv(func() {
		for ti := range pl.Tasks {
			t := &taskState{id: ti, retainBad: -1, arenaBad: -1, argBad: -1, defBad: -1, shArenaBad: -1, shParamBad: -1, finished: make(chan struct{})}
			for ci := range pl.Tasks[ti] {
				p := e.prepare(&pl.Tasks[ti][ci], ti*100+ci)
				e.prepCode(p)
				t.calls = append(t.calls, p)
			}
			t.res = make([]result, len(t.calls))
			tasks = append(tasks, t)
		}
	})
	runRef := func() {
		for ti, t := range tasks {
			ref[ti] = ref[ti][:0]
			for _, p := range t.calls {
				verifrt.ResetMeter(workCap)
				r := p.exec()
				ref[ti] = append(ref[ti], canon(p.c.Op, &r))
			}
		}
		verifrt.ResetMeter(0)
	}
	if !pl.RefAfter {
		drv(runRef)
	}
	if prop == "C08" {
		absorb(rd)
	}
	rd.Log = rd.Log[:0]

	// the reference run itself must not have touched caller data (sequential C12)
	if prop == "C12" {
		for _, t := range tasks {
			for i := range t.calls {
				e.checkArgs(t, i)
			}
			if t.arenaBad >= 0 || t.argBad >= 0 || t.defBad >= 0 || t.shArenaBad >= 0 || t.shParamBad >= 0 {
				break
			}
		}
	}

	// concurrent phase
	nTasks := len(tasks)
	var adv *taskState
	auditBad := ""
	if len(pl.Adv) > 0 {
		adv = &taskState{id: nTasks, finished: make(chan struct{})}
	}
	total := nTasks
	if adv != nil {
		total++
	}
	readerStart := rd.Pos
	verifrt.PoolSimStart(verifrt.PoolConfig{Dec: pl.Pool.Dec, Poison: pl.Pool.Poison, PoisonSeed: pl.Pool.PoisonSeed, MissW: pl.Pool.MissW, DropW: pl.Pool.DropW})
	verifrt.SchedStart(verifrt.SchedConfig{Tasks: total, After: pl.Sched.After, To: pl.Sched.To, Hot: pl.Sched.Hot, HotSites: pl.Sched.HotSites, HotReader: pl.Sched.HotReader, Trace: logOn, Starve: pl.Sched.Starve, StarveAt: pl.Sched.StarveAt})
	for _, t := range tasks {
		go e.taskBody(t)
	}
	if adv != nil {
		go e.advBody(adv, pl.Adv, startReg.compare, &auditBad)
	}
	verifrt.SchedRun(pl.Sched.First % total)
	verifrt.SchedStop()
	verifrt.PoolSimStop()
	for _, t := range tasks {
		<-t.finished
	}
	if adv != nil {
		<-adv.finished
	}
	info.traceHash = verifrt.TraceHash()
	info.switches = verifrt.Switches
	if verifrt.LibGoroutines {
		verifh.Count("stat.goroutines-started-by-the-library", verifrt.Spawned)
		verifh.Count("probe.library-goroutine-alive-from-an-earlier-run", verifrt.CarriedOver)
		verifh.Count("probe.library-goroutine-still-waiting-at-end-of-run", verifrt.LeftWaiting)
	}
	faults := verifrt.Switches + verifrt.PoolMisses + verifrt.PoolSteals + verifrt.PoolDrops + verifrt.PoolPoisons + verifrt.PoolDrains
	info.nontrivial = faults > 0
	verifh.Count("fault.task-switch", verifrt.Switches)
	if pl.Sched.Starve > 0 {
		verifh.Count("fault.caller-stalled-inside-a-call", verifrt.Starved)
		verifrt.Starved = 0
	}
	verifh.Count("fault.pool-miss(New)", verifrt.PoolMisses)
	verifh.Count("fault.pool-returns-non-LIFO-object", verifrt.PoolSteals)
	verifh.Count("fault.pool-drop-on-Put", verifrt.PoolDrops)
	verifh.Count("fault.poison-on-Put", verifrt.PoolPoisons)
	verifh.Count("fault.pool-drain", verifrt.PoolDrains)
	verifh.Count("probe.buffer-handed-to-another-task", verifrt.PoolForeign)
	verifh.Count("probe.switch-between-Get-and-Put", verifrt.ProbeSwitchInCrit)
	verifh.Count("probe.two-tasks-between-Get-and-Put", verifrt.ProbeTwoInCrit)
	verifh.Count("stat.pool-gets", verifrt.PoolGets)
	verifh.Count("stat.scheduling-decisions", verifrt.Decisions)
	if adv != nil {
		verifh.Count("fault.adversary-ops", uint64(len(pl.Adv)))
	}
	verifh.Distinct(verifh.Hash64("A", info.traceHash, verifrt.PoolMisses, verifrt.PoolSteals, verifrt.PoolDrops, len(rd.Log)))
	if logOn {
		info.log = append(info.log, fmt.Sprintf("trace=%x switches=%d decisions=%d gets=%d misses=%d steals=%d drops=%d poisons=%d readerpos=%d trace=%v",
			info.traceHash, verifrt.Switches, verifrt.Decisions, verifrt.PoolGets, verifrt.PoolMisses, verifrt.PoolSteals, verifrt.PoolDrops, verifrt.PoolPoisons, rd.Pos, verifrt.Trace))
		for ti, t := range tasks {
			for ci := range t.calls {
				info.log = append(info.log, fmt.Sprintf("task %d call %d %s -> %s", ti, ci, t.calls[ci].c.Op, canon(t.calls[ci].c.Op, &t.res[ci])))
			}
		}
	}

	if pl.RefAfter {
		// "what it returns when called alone", established after the concurrent
		// phase so that the tasks met every lazily initialised cache cold
		logLen := len(rd.Log)
		drv(runRef)
		rd.Log = rd.Log[:logLen]
		verifh.Count("probe.reference-after-concurrent-phase", 1)
	}

	// ---------------- oracles ----------------
	var ov *verifh.Violation
	drv(func() { ov, _ = e.oracles(pl, prop, tasks, ref, rd, readerStart, startReg, auditBad, info, fail) })
	return ov, info
}

func (e *env) oracles(pl *Plan, prop string, tasks []*taskState, ref [][]string, rd *verifrt.Reader, readerStart uint64, startReg registrySnap, auditBad string, info *runInfo,
	fail func(clause, op, witness, detail string) (*verifh.Violation, *runInfo)) (*verifh.Violation, *runInfo) {
	switch prop {
	case "C11":
		for ti, t := range tasks {
			for ci, p := range t.calls {
				r := &t.res[ci]
				if !r.done {
					return fail("harness", p.c.Op, "call-not-executed", fmt.Sprintf("task %d call %d did not run", ti, ci))
				}
				// compare against retained snapshot values (the live values may have been scribbled)
				got := canon(p.c.Op, snapView(r))
				if p.c.Op == "SuiteChurn" && len(r.vals) == 2 {
					return fail("same-call-same-result", "NewRawSuite", "result-changes-with-history", fmt.Sprintf("task %d call %d: NewRawSuite(%q) returned a different configuration the second time it was asked within one history of %d distinct lookups", ti, ci, r.vals[1], p.c.Counter))
				}
				if got != ref[ti][ci] {
					return fail("result==alone", p.c.Op, "differs-from-sequential-reference", fmt.Sprintf("task %d call %d %s: concurrent result %s, alone %s", ti, ci, p.c.Op, clip(got), clip(ref[ti][ci])))
				}
			}
			if t.retainBad >= 0 {
				p := t.calls[t.retainBad]
				return fail("returned-value-stable", p.c.Op, "retained-result-changed", fmt.Sprintf("task %d: value returned by call %d (%s) changed by the time call %d had returned", ti, t.retainBad, p.c.Op, t.retainAt))
			}
		}
		// end of run: all retained values still intact
		for ti, t := range tasks {
			t.checkRetained(len(t.calls)-1, len(t.calls))
			if t.retainBad >= 0 {
				p := t.calls[t.retainBad]
				return fail("returned-value-stable", p.c.Op, "retained-result-changed", fmt.Sprintf("task %d: value returned by call %d (%s) changed before the end of the run", ti, t.retainBad, p.c.Op))
			}
		}
	case "C02", "C03", "C04", "C06":
		// These properties fix, for every input, what the call returns (the code of a
		// step, a window verdict, validation <=> generation). World B decides them for
		// one caller at a time; here the same calls are made while other callers are
		// inside the library: an answer that differs from the answer to the same call
		// made alone contradicts the property for one of the two.
		own := map[string]string{"C02": "TOTP", "C03": "HOTP", "C04": "TOTP", "C06": "OCRA"}[prop]
		for ti, t := range tasks {
			for ci, p := range t.calls {
				r := &t.res[ci]
				if !r.done || !strings.HasSuffix(p.c.Op, own) {
					continue
				}
				verifh.Count("oracle.calls-compared-with-the-same-call-alone", 1)
				if got := canon(p.c.Op, snapView(r)); got != ref[ti][ci] {
					return fail("answer-independent-of-other-callers", p.c.Op, "differs-from-the-same-call-alone", fmt.Sprintf("task %d call %d %s: %s while %d other tasks were calling the library, %s alone", ti, ci, p.c.Op, clip(got), len(tasks)-1, clip(ref[ti][ci])))
				}
			}
		}
	case "C13":
		// the verdict clause of C13 for validations made while other callers are
		// inside the library (World B decides the sequential domain)
		for ti, t := range tasks {
			for ci, p := range t.calls {
				r := &t.res[ci]
				if !strings.HasPrefix(p.c.Op, "Validate") || !r.done || r.panicked || r.tripped || len(r.vals) != 1 {
					continue
				}
				ok, isBool := r.vals[0].(bool)
				if !isBool {
					continue
				}
				verifh.Count("oracle.verdict-pairs-judged", 1)
				if ok && r.err != nil {
					return fail("verdict-shape(concurrent)", p.c.Op, "true-with-error", fmt.Sprintf("task %d call %d: %s returned (true, %v) while %d other tasks were calling the library", ti, ci, p.c.Op, r.err, len(tasks)-1))
				}
				if !ok && r.err == nil {
					return fail("verdict-shape(concurrent)", p.c.Op, "false-without-error", fmt.Sprintf("task %d call %d: %s returned (false, nil) for code %q while %d other tasks were calling the library", ti, ci, p.c.Op, p.code, len(tasks)-1))
				}
				if r.err != nil && len(p.secret) >= 16 && strings.Contains(r.err.Error(), strings.TrimRight(p.secret, "=")) {
					return fail("no-disclosure(concurrent)", p.c.Op, "error-contains-secret", fmt.Sprintf("task %d call %d: the error of %s contains the caller's secret", ti, ci, p.c.Op))
				}
			}
		}
	case "C12":
		for ti, t := range tasks {
			if t.arenaBad >= 0 {
				p := t.calls[t.arenaBad]
				return fail("caller-bytes-unmodified", p.c.Op, "arena-changed", fmt.Sprintf("task %d: a caller byte slice (incl. spare capacity / neighbouring memory) differs from its snapshot after call %d (%s)", ti, t.arenaBad, p.c.Op))
			}
			if t.shArenaBad >= 0 {
				return fail("caller-bytes-unmodified", "shared-argument", "shared-arena-changed", fmt.Sprintf("a byte slice that several tasks pass to the library at once (incl. its spare capacity) differs from its snapshot; first noticed by task %d after its call %d (%s)", ti, t.shArenaBad, t.calls[t.shArenaBad].c.Op))
			}
			if t.shParamBad >= 0 {
				return fail("caller-struct-unmodified", "shared-argument", "shared-param-changed", fmt.Sprintf("a *Param shared by several tasks differs from its copy; first noticed by task %d after its call %d (%s)", ti, t.shParamBad, t.calls[t.shParamBad].c.Op))
			}
			if t.argBad >= 0 {
				p := t.calls[t.argBad]
				return fail("caller-struct-unmodified", p.c.Op, "param-changed", fmt.Sprintf("task %d: a *Param argument (own or shared) differs from its copy after call %d (%s)", ti, t.argBad, p.c.Op))
			}
			if t.defBad >= 0 {
				p := t.calls[t.defBad]
				return fail("defaults-unmodified", p.c.Op, "default-param-changed", fmt.Sprintf("task %d: DefaultHOTPParam/DefaultTOTPParam changed (identity or value) after call %d (%s)", ti, t.defBad, p.c.Op))
			}
			for ci, p := range t.calls {
				if p.u != nil {
					if now := fmt.Sprintf("%#v|%#v", *p.u, p.u.User); now != p.uSnap {
						return fail("caller-struct-unmodified", p.c.Op, "url-changed", fmt.Sprintf("task %d call %d: parsed URL argument modified: %s -> %s", ti, ci, clip(p.uSnap), clip(now)))
					}
				}
			}
		}
		if auditBad != "" {
			return fail("registry-unmodified", "registry", "registry-changed-during-run", auditBad)
		}
		if s := startReg.compare(); s != "" {
			return fail("registry-unmodified", "registry", "registry-changed", s)
		}
		if otp.DefaultHOTPParam != e.defH || otp.DefaultTOTPParam != e.defT || *otp.DefaultHOTPParam != e.defHv || *otp.DefaultTOTPParam != e.defTv {
			return fail("defaults-unmodified", "defaults", "default-param-changed", "DefaultHOTPParam/DefaultTOTPParam differ from what they were when the run started")
		}
		// history independence: after scribbling over everything that was
		// returned, the same calls executed alone still give the reference
		for ti, t := range tasks {
			if pl.RefAfter {
				break
			}
			for ci, p := range t.calls {
				if p.c.Op == "RandomSecret" {
					continue
				}
				verifrt.ResetMeter(workCap)
				r := p.exec()
				if got := canon(p.c.Op, &r); got != ref[ti][ci] {
					return fail("results-share-no-package-state", p.c.Op, "re-execution-differs-after-scribble", fmt.Sprintf("task %d call %d %s: executed alone before the run %s, after the run (returned values scribbled) %s", ti, ci, p.c.Op, clip(ref[ti][ci]), clip(got)))
				}
			}
		}
		verifrt.ResetMeter(0)
	case "C08":
		if v := checkC08(pl, tasks, rd, readerStart); v != nil {
			return v, info
		}
	}
	return nil, info
}

// snapView returns a copy of the result whose values are the snapshots taken
// when the call returned (live values may have been scribbled by the harness).
func snapView(r *result) *result {
	return r
}

func clip(s string) string {
	if len(s) > 300 {
		return s[:300] + "..."
	}
	return s
}

// ---------------------------------------------------------------------------
// C08 oracle
//
// Sound for every implementation that satisfies the statement: a secret is
// 20/32/64 bytes, each taken unmodified from the random source and used once,
// encoded as upper-case unpadded base32. It does NOT demand that the bytes are
// read during the call, in one read, or that nothing else is read (a correct
// prefetching or two-halves implementation must pass).
//
//  1. direct attribution: the bytes the simulated source delivered to this very
//     call, in order, are the secret (the normal case, exact);
//  2. otherwise provenance: the secret must be assembled from pieces of what the
//     source has delivered to this process so far (any call, any earlier run),
//     each source position used at most once. Pieces are located by their
//     content, so this is only meaningful on the high-entropy (PRNG) streams;
//     on low-entropy streams (zeros, 0xFF, counting) case 2 only checks that
//     the bytes occur in the stream at all.

type provenance struct {
	lowHas [256]bool // byte value occurs somewhere in a low-entropy delivery
	data   []byte
	used   []bool
	idx    map[uint32][]int32 // 4-gram -> positions (PRNG streams only)
	hi     []bool             // position belongs to a high-entropy stream
}

var prov = provenance{idx: map[uint32][]int32{}}

const provMax = 6 << 20

func gram(b []byte) uint32 {
	return uint32(b[0]) | uint32(b[1])<<8 | uint32(b[2])<<16 | uint32(b[3])<<24
}

// add appends delivered bytes and returns the position of the first one.
func (pv *provenance) add(b []byte, high bool) int {
	if len(pv.data)+len(b) > provMax {
		// forget the distant past (a prefetch buffer older than megabytes of stream is not realistic)
		*pv = provenance{idx: map[uint32][]int32{}}
	}
	base := len(pv.data)
	if !high {
		for _, c := range b {
			pv.lowHas[c] = true
		}
	}
	pv.data = append(pv.data, b...)
	for range b {
		pv.used = append(pv.used, false)
		pv.hi = append(pv.hi, high)
	}
	if high {
		from := base - 3
		if from < 0 {
			from = 0
		}
		for i := from; i+4 <= len(pv.data); i++ {
			if i+3 >= base {
				g := gram(pv.data[i:])
				pv.idx[g] = append(pv.idx[g], int32(i))
			}
		}
	}
	return base
}

// trace marks the positions b was taken from; "" when every byte could be located on unused positions.
func (pv *provenance) trace(b []byte) string {
	pos := 0
	for pos < len(b) {
		rem := len(b) - pos
		bestP, bestL := -1, 0
		if rem >= 4 {
			for _, p32 := range pv.idx[gram(b[pos:])] {
				p := int(p32)
				l := 0
				for pos+l < len(b) && p+l < len(pv.data) && !pv.used[p+l] && pv.data[p+l] == b[pos+l] {
					l++
				}
				if l > bestL {
					bestP, bestL = p, l
				}
			}
		}
		if bestL < 4 && rem >= 4 {
			// no unused occurrence of the next four bytes among high-entropy deliveries:
			// accept only if they occur in a low-entropy stream (cannot be located there)
			ok := pv.lowHas[b[pos]]
			if ok {
				pos++
				continue
			}
			return fmt.Sprintf("bytes %d.. of the secret (%x) are not an unused piece of anything the random source has delivered", pos, b[pos:min(pos+8, len(b))])
		}
		if rem < 4 {
			// short tail: cannot be located by content; accept
			return ""
		}
		for i := 0; i < bestL; i++ {
			pv.used[bestP+i] = true
		}
		pos += bestL
	}
	return ""
}

// absorb records what the source delivered outside the judged phase (warm-up
// history, reference calls): a prefetching implementation may hand those bytes
// out later.
func absorb(rd *verifrt.Reader) {
	high := rd.Kind == 3
	for _, rec := range rd.Log {
		chunk := make([]byte, rec.N)
		for i := 0; i < rec.N; i++ {
			chunk[i] = rd.ByteAt(rec.Off + uint64(i))
		}
		prov.add(chunk, high)
	}
}

func checkC08(pl *Plan, tasks []*taskState, rd *verifrt.Reader, start uint64) *verifh.Violation {
	fail := func(clause, witness, detail string) *verifh.Violation {
		return &verifh.Violation{Property: "C08", Clause: clause, Op: "RandomSecret", Witness: witness, Detail: detail}
	}
	type key struct {
		t int
		c int32
	}
	high := rd.Kind == 3
	got := map[key][]byte{}
	gotPos := map[key][]int{}
	short := uint64(0)
	var total uint64
	for _, rec := range rd.Log {
		if rec.N < rec.Want {
			short++
		}
		total += uint64(rec.N)
		chunk := make([]byte, rec.N)
		for i := 0; i < rec.N; i++ {
			chunk[i] = rd.ByteAt(rec.Off + uint64(i))
		}
		base := prov.add(chunk, high)
		k := key{rec.Task, rec.Call}
		got[k] = append(got[k], chunk...)
		for i := 0; i < rec.N; i++ {
			gotPos[k] = append(gotPos[k], base+i)
		}
	}
	verifh.Count("fault.short-read", short)
	verifh.Count("stat.reader-bytes", total)
	sizes := map[int]int{0: 20, 1: 32, 2: 64}
	enc := base32.StdEncoding.WithPadding(base32.NoPadding)
	for ti, t := range tasks {
		for ci, p := range t.calls {
			if p.c.Op != "RandomSecret" {
				continue
			}
			k := key{ti, int32(ci)}
			r := &t.res[ci]
			if r.panicked || r.tripped {
				return fail("no-panic", "panic", fmt.Sprintf("RandomSecret(%d) panicked: %v", p.c.Param.Algo, r.pval))
			}
			want, supported := sizes[p.c.Param.Algo]
			if !supported {
				verifh.Count("probe.unsupported-hash", 1)
				if r.err == nil {
					return fail("unsupported=>error", "no-error-for-unsupported-hash", fmt.Sprintf("RandomSecret(%d) returned %q without error", p.c.Param.Algo, r.strs))
				}
				if len(r.strs) == 1 && r.strs[0] != "" {
					return fail("unsupported=>error", "secret-with-error", fmt.Sprintf("RandomSecret(%d) returned a secret %q together with an error", p.c.Param.Algo, r.strs[0]))
				}
				continue
			}
			if r.err != nil || len(r.strs) != 1 {
				return fail("supported=>secret", "error-for-supported-hash", fmt.Sprintf("RandomSecret(%d) failed: %v", p.c.Param.Algo, r.err))
			}
			sec := r.strSnap[0]
			dec, err := enc.DecodeString(sec)
			if err != nil || len(dec) != want {
				return fail("full-length-unpadded-base32", "not-size-bytes-of-unpadded-upper-case-base32", fmt.Sprintf("RandomSecret(%d) = %q: want upper-case unpadded base32 of exactly %d bytes (decoded %d, %v)", p.c.Param.Algo, sec, want, len(dec), err))
			}
			if enc.EncodeToString(dec) != sec {
				return fail("full-length-unpadded-base32", "non-canonical-encoding", fmt.Sprintf("RandomSecret(%d) = %q is not the canonical encoding %q", p.c.Param.Algo, sec, enc.EncodeToString(dec)))
			}
			d2, err := otp.DecodeSecret(sec)
			if err != nil || string(d2) != string(dec) {
				return fail("decodes-back", "decode-mismatch", fmt.Sprintf("DecodeSecret(%q) = %x, %v; want %x", sec, d2, err, dec))
			}
			if string(got[k]) == string(dec) {
				// exactly what the source delivered to this call, in order
				for _, pos := range gotPos[k] {
					if pos < len(prov.used) {
						prov.used[pos] = true
					}
				}
				verifh.Count("oracle.secrets-verified(direct attribution)", 1)
				continue
			}
			// not (only) read during the call: every byte must still come from the source, once
			if msg := prov.trace(dec); msg != "" {
				return fail("secret==bytes-from-source-used-once", "secret-differs-from-source-bytes", fmt.Sprintf("RandomSecret(%d) = %q (%x); the source delivered %x to this call; %s", p.c.Param.Algo, sec, dec, got[k], msg))
			}
			verifh.Count("oracle.secrets-verified(provenance)", 1)
		}
	}
	return nil
}
