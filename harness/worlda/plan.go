// Package worlda: concurrent callers of the instrumented library under a
// seeded baton scheduler with a simulated sync.Pool and a simulated random
// source (DESIGN.md 3.1). Decides C08, C11, C12.
package worlda

import (
	"sort"

	"github.com/ja7ad/otp"
	"github.com/ja7ad/otp/internal/verifh"
	"github.com/ja7ad/otp/internal/verifrt"
	"pgregory.net/rapid"
)

type Plan struct {
	Prop     string   `json:"prop"`
	RefAfter bool     `json:"ref_after,omitempty"` // reference calls run after the concurrent phase (tasks meet cold caches)
	Tasks    [][]Call `json:"tasks"`
	Adv      []AdvOp  `json:"adv,omitempty"` // adversary task (runs as the last task)

	// shared objects several tasks pass to the library at once
	SharedParams []ParamSpec `json:"shared_params,omitempty"`
	SharedFields []Field     `json:"shared_fields,omitempty"`

	Sched  SchedSpec  `json:"sched"`
	Pool   PoolSpec   `json:"pool"`
	Reader ReaderSpec `json:"reader"`
	Warm   []Call     `json:"warm,omitempty"` // sequential history executed before the concurrent phase
}

type SchedSpec struct {
	After     []uint16 `json:"after"`
	To        []uint16 `json:"to"`
	Hot       []uint16 `json:"hot,omitempty"`
	HotSites  []int    `json:"hot_sites,omitempty"`
	HotReader bool     `json:"hot_reader,omitempty"`
	First     int      `json:"first"`
	Starve    int      `json:"starve,omitempty"`    // 1+task that stalls (0: none)
	StarveAt  uint64   `json:"starve_at,omitempty"` // at this statement of one of its calls
}

type PoolSpec struct {
	Dec        []uint16 `json:"dec,omitempty"`
	Poison     bool     `json:"poison"`
	PoisonSeed uint64   `json:"poison_seed"`
	MissW      int      `json:"miss_w"`
	DropW      int      `json:"drop_w"`
}

type ReaderSpec struct {
	Kind   int      `json:"kind"`
	Seed   uint64   `json:"seed"`
	Chunks []uint16 `json:"chunks,omitempty"`
}

type ParamSpec struct {
	Digits int    `json:"digits"`
	Algo   int    `json:"algo"`
	Period uint64 `json:"period"`
	Skew   uint64 `json:"skew"`
}

// Field is a []byte argument placed in a canary arena.
type Field struct {
	Data   []byte `json:"data"`
	Shape  int    `json:"shape"`            // 0 len==cap, 1 spare capacity, 2 sub-slice with the rest of a big array as capacity, 3 nil-if-empty
	Spare  int    `json:"spare,omitempty"`  // spare capacity behind len
	Shared int    `json:"shared,omitempty"` // 1+index into Plan.SharedFields (0 = own)
}

type SuiteSpec struct {
	Mode                    string `json:"mode"` // registered | parsed | newsuite | config
	Name                    string `json:"name,omitempty"`
	Raw                     string `json:"raw,omitempty"`
	Hash, Digits, Challenge int
	C, Q, P, S, T           bool
	PHash, TimeStep         int
}

type Call struct {
	Op       string    `json:"op"`
	Secret   []byte    `json:"secret,omitempty"`
	Spell    int       `json:"spell,omitempty"`
	Counter  uint64    `json:"counter,omitempty"`
	Param    ParamSpec `json:"param"`
	PMode    int       `json:"pmode,omitempty"` // 0 own struct, 1 nil, 2+ = shared param index+2
	Sec      int64     `json:"sec,omitempty"`
	Nsec     int64     `json:"nsec,omitempty"`
	CodeMode int       `json:"code_mode,omitempty"` // validate: 0 the right code, 1 corrupted, 2 neighbour, 3 Str
	Suite    SuiteSpec `json:"suite"`
	In       [5]Field  `json:"in"` // counter, challenge, password, session, timestamp
	Str      string    `json:"str,omitempty"`
	Str2     string    `json:"str2,omitempty"`
	N        int       `json:"n,omitempty"`
	Scribble bool      `json:"scribble,omitempty"` // harness overwrites the returned value after use
	Repeat   int       `json:"repeat,omitempty"`   // the call is executed this many times in a row (history amplifier)
}

type AdvOp struct {
	Kind  string `json:"kind"` // scribble | drain | gc | audit
	Pool  int    `json:"pool"`
	Which int    `json:"which"`
	Byte  byte   `json:"byte"`
	Len   int    `json:"len"`
}

var sortedSuites = func() []string {
	l := otp.ListSuites()
	sort.Strings(l)
	return l
}()

func weighted(t *rapid.T, label string, weights ...int) int {
	sum := 0
	for _, w := range weights {
		sum += w
	}
	x := rapid.IntRange(0, sum-1).Draw(t, label)
	for i, w := range weights {
		if x < w {
			return i
		}
		x -= w
	}
	return len(weights) - 1
}

// family is the per-plan base of "related" secrets: equal length, equal up to
// some position (before/after the 64-byte HMAC block boundary), one byte more
// or less - the inputs a cache keyed by a prefix, a length or a truncated copy
// of the secret would confuse.
var family []byte

func genFamily(t *rapid.T) {
	n := rapid.SampledFrom([]int{10, 20, 32, 63, 64, 65, 80, 128, 129, 200}).Draw(t, "familyLen")
	family = rapid.SliceOfN(rapid.Byte(), n, n).Draw(t, "family")
}

func relatedSecret(t *rapid.T) []byte {
	b := append([]byte(nil), family...)
	n := len(b)
	switch rapid.IntRange(0, 6).Draw(t, "relKind") {
	case 0:
	case 1:
		b[n-1] ^= 0x01
	case 2:
		i := rapid.SampledFrom([]int{0, 19, 20, 31, 32, 63, 64, 65, 127}).Draw(t, "relPos")
		if i >= n {
			i = n - 1
		}
		b[i] ^= byte(1 + rapid.IntRange(0, 254).Draw(t, "relXor"))
	case 3:
		b = append(b, rapid.Byte().Draw(t, "relExtra"))
	case 4:
		b = b[:n-1]
	case 5:
		b[n/2] ^= 0x80
	default:
		for i := n / 2; i < n; i++ {
			b[i] = ^b[i]
		}
	}
	return b
}

func genSecret(t *rapid.T) []byte {
	if len(family) > 0 && weighted(t, "related?", 2, 1) == 1 {
		return relatedSecret(t)
	}
	switch weighted(t, "secretClass", 6, 1, 1, 1) {
	case 0:
		return rapid.SliceOfN(rapid.Byte(), 10, 32).Draw(t, "secret")
	case 1:
		return []byte{}
	case 2:
		return rapid.SliceOfN(rapid.Byte(), 1, 9).Draw(t, "secretShort")
	default:
		return rapid.SliceOfN(rapid.Byte(), 60, 130).Draw(t, "secretLong")
	}
}

func genParam(t *rapid.T) ParamSpec {
	return ParamSpec{
		Digits: rapid.SampledFrom([]int{6, 6, 8, 8, 1, 2, 3, 4, 5, 7, 9, 10}).Draw(t, "digits"),
		Algo:   rapid.SampledFrom([]int{0, 0, 1, 2, 3}).Draw(t, "algo"),
		Period: rapid.SampledFrom([]uint64{30, 30, 0, 1, 60, 7, 1 << 20}).Draw(t, "period"),
		Skew:   rapid.Uint64Range(0, 11).Draw(t, "skew"),
	}
}

func genLenAround(t *rapid.T, label string, lo, hi int, marks ...int) int {
	if weighted(t, label+"Cls", 2, 1) == 0 {
		m := rapid.SampledFrom(marks).Draw(t, label+"Mark") + rapid.IntRange(-1, 1).Draw(t, label+"Off")
		if m < lo {
			m = lo
		}
		if m > hi {
			m = hi
		}
		return m
	}
	return rapid.IntRange(lo, hi).Draw(t, label)
}

func genField(t *rapid.T, label string, n int, nShared int) Field {
	f := Field{Data: rapid.SliceOfN(rapid.Byte(), n, n).Draw(t, label)}
	f.Shape = weighted(t, label+"Shape", 3, 3, 3, 1, 1) // 4: back to back with the next field in one array
	if f.Shape == 1 {
		f.Spare = rapid.SampledFrom([]int{1, 7, 8, 120, 128, 129, 300}).Draw(t, label+"Spare")
	}
	if nShared > 0 && weighted(t, label+"Shared?", 4, 1) == 1 {
		f.Shared = 1 + rapid.IntRange(0, nShared-1).Draw(t, label+"SharedIdx")
	}
	return f
}

// registeredCfg is read once at process start (registered names only: lookups
// of registered suites are reads; the generator never calls the library with
// anything that could warm a cache or touch package state the run relies on
// seeing for the first time).
var registeredCfg = func() map[string]otp.SuiteConfig {
	m := map[string]otp.SuiteConfig{}
	for _, n := range sortedSuites {
		m[n] = otp.SuiteConfigFromRaws(n)
	}
	return m
}()

// needs describes what the generator must know about a suite to build
// admissible inputs; derived from the spec, never from the library.
type needs struct {
	chalMin int
	pinLen  int
}

func needsOf(sp SuiteSpec) needs {
	n := needs{chalMin: 8, pinLen: 20}
	ch, ph := sp.Challenge, sp.PHash
	if sp.Mode == "registered" {
		c := registeredCfg[sp.Name]
		ch, ph = int(c.Challenge), int(c.PasswordHash)
	}
	switch ch {
	case 2, 4, 6:
		n.chalMin = 10
	}
	switch ph {
	case 2:
		n.pinLen = 32
	case 3:
		n.pinLen = 64
	}
	return n
}

func genSuite(t *rapid.T) SuiteSpec {
	switch weighted(t, "suiteMode", 6, 2, 2, 1) {
	case 0:
		return SuiteSpec{Mode: "registered", Name: rapid.SampledFrom(sortedSuites).Draw(t, "suiteName")}
	case 1:
		// parsed (not registered) numeric-challenge suites, incl. long ones that outgrow the pooled buffer
		sp := SuiteSpec{Mode: "parsed", Challenge: 1, PHash: 0}
		s := "OCRA-1:HOTP-" + rapid.SampledFrom([]string{"SHA1", "SHA256", "SHA512"}).Draw(t, "pHash") + "-" +
			rapid.SampledFrom([]string{"4", "5", "6", "7", "8", "9", "10"}).Draw(t, "pDig") + ":"
		if rapid.Bool().Draw(t, "pC") {
			s += "C-"
		}
		ql := rapid.SampledFrom([]string{"08", "10"}).Draw(t, "pQ")
		if ql == "10" {
			sp.Challenge = 2
		}
		s += "QN" + ql
		if rapid.Bool().Draw(t, "pP") {
			ph := rapid.IntRange(1, 3).Draw(t, "pPH")
			sp.PHash = ph
			s += "-P" + []string{"", "SHA1", "SHA256", "SHA512"}[ph]
		}
		if rapid.Bool().Draw(t, "pS") {
			s += "-S" + rapid.SampledFrom([]string{"", "064", "128"}).Draw(t, "pSL")
		}
		if rapid.Bool().Draw(t, "pT") {
			// a wide space of time steps: most parsed names are new to the process
			s += "-T" + itoa(rapid.IntRange(1, 59).Draw(t, "pTn")) + rapid.SampledFrom([]string{"S", "M", "H"}).Draw(t, "pTu")
		}
		sp.Name = s
		return sp
	default:
		mode := "newsuite"
		if rapid.Bool().Draw(t, "cfgMode") {
			mode = "config"
		}
		return SuiteSpec{
			Mode: mode, Raw: rapid.SampledFrom([]string{"", "OCRA-1:HOTP-SHA1-6:QN08", "custom-suite-with-a-rather-long-name-to-grow-the-message"}).Draw(t, "bRaw"),
			Hash: rapid.IntRange(0, 2).Draw(t, "bHash"), Digits: rapid.IntRange(4, 10).Draw(t, "bDig"), Challenge: rapid.IntRange(1, 6).Draw(t, "bChal"),
			C: rapid.Bool().Draw(t, "bC"), Q: weighted(t, "bQ", 1, 4) == 1, P: rapid.Bool().Draw(t, "bP"), S: rapid.Bool().Draw(t, "bS"), T: rapid.Bool().Draw(t, "bT"),
			PHash: rapid.IntRange(1, 3).Draw(t, "bPH"), TimeStep: rapid.SampledFrom([]int{1, 30, 60}).Draw(t, "bTS"),
		}
	}
}

func genOCRAFields(t *rapid.T, sp SuiteSpec, nShared int) [5]Field {
	nd := needsOf(sp)
	var in [5]Field
	bad := weighted(t, "badInput?", 9, 1) == 1
	cl := 8
	if bad && rapid.Bool().Draw(t, "badCtr") {
		cl = rapid.SampledFrom([]int{0, 7, 9}).Draw(t, "badCtrLen")
	}
	in[0] = genField(t, "fCounter", cl, nShared)
	min := nd.chalMin
	ql := genLenAround(t, "fChalLen", min, 128, min, 127, 128, 64)
	if bad && rapid.Bool().Draw(t, "badChal") {
		ql = rapid.SampledFrom([]int{0, min - 1, 129, 200}).Draw(t, "badChalLen")
	}
	in[1] = genField(t, "fChal", ql, nShared)
	pl := nd.pinLen
	if bad && rapid.Bool().Draw(t, "badPin") {
		pl = rapid.SampledFrom([]int{0, 19, 21, 33}).Draw(t, "badPinLen")
	}
	in[2] = genField(t, "fPin", pl, nShared)
	sl := genLenAround(t, "fSessLen", 0, 128, 0, 127, 128, 64)
	if bad && rapid.Bool().Draw(t, "badSess") {
		sl = 129
	}
	in[3] = genField(t, "fSess", sl, nShared)
	tl := 8
	if bad && rapid.Bool().Draw(t, "badTs") {
		tl = rapid.SampledFrom([]int{0, 7, 9}).Draw(t, "badTsLen")
	}
	in[4] = genField(t, "fTs", tl, nShared)
	return in
}

var opsC11 = []string{
	"GenerateHOTP", "GenerateHOTP", "GenerateHOTP", "GenerateTOTP", "GenerateTOTP", "GenerateOCRA", "GenerateOCRA", "GenerateOCRA",
	"ValidateHOTP", "ValidateHOTP", "ValidateTOTP", "ValidateOCRA", "ValidateOCRA",
	"NewRawSuite", "NewSuite", "ListSuites", "IsKnownSuite", "SuiteConfigFromRaws",
	"DecodeSecret", "GenerateHOTPURL", "GenerateTOTPURL", "ParseOTPAuthURL", "RandomSecret",
	"ParseDecimalToBigEndian8", "LeftPadHex", "ParseDecimal64BigEndian", "ParseHexTimestamp", "ParseDecimalChallengeRFC6287",
	"To8ByteBigEndian", "HexInputToOCRA", "InputValidate", "SuiteValidate", "FromStr", "SuiteChurn",
}

func genCall(t *rapid.T, prop string, nSharedP, nSharedF int) Call {
	var c Call
	switch prop {
	case "C08":
		if weighted(t, "c08op", 5, 1) == 0 {
			c.Op = "RandomSecret"
		} else {
			c.Op = rapid.SampledFrom([]string{"GenerateHOTP", "DecodeSecret", "GenerateOCRA"}).Draw(t, "op")
		}
	case "C13":
		// the validators, with some generation in between for pool traffic
		c.Op = rapid.SampledFrom([]string{"ValidateHOTP", "ValidateHOTP", "ValidateTOTP", "ValidateTOTP", "ValidateOCRA", "ValidateOCRA", "GenerateHOTP", "GenerateOCRA"}).Draw(t, "op")
	case "C03":
		c.Op = rapid.SampledFrom([]string{"ValidateHOTP", "ValidateHOTP", "ValidateHOTP", "GenerateHOTP", "GenerateHOTP", "GenerateTOTP", "GenerateOCRA"}).Draw(t, "op")
	case "C04", "C02":
		c.Op = rapid.SampledFrom([]string{"ValidateTOTP", "ValidateTOTP", "GenerateTOTP", "GenerateTOTP", "GenerateHOTP", "GenerateOCRA"}).Draw(t, "op")
	case "C06":
		c.Op = rapid.SampledFrom([]string{"ValidateOCRA", "ValidateOCRA", "GenerateOCRA", "GenerateOCRA", "GenerateHOTP"}).Draw(t, "op")
	default:
		c.Op = rapid.SampledFrom(opsC11).Draw(t, "op")
	}
	c.Scribble = prop == "C12" && rapid.Bool().Draw(t, "scribble")

	switch c.Op {
	case "GenerateHOTP", "GenerateTOTP", "ValidateHOTP", "ValidateTOTP":
		c.Secret = genSecret(t)
		c.Spell = rapid.IntRange(0, 5).Draw(t, "spell")
		c.Counter = rapid.SampledFrom([]uint64{0, 1, 2, 1 << 31, 1 << 32, 1<<63 - 1, 1 << 63, ^uint64(0) - 20}).Draw(t, "cbase") + rapid.Uint64Range(0, 9).Draw(t, "coff")
		c.Param = genParam(t)
		if c.Param.Algo == 3 && weighted(t, "keepBadAlgo", 3, 1) == 0 {
			c.Param.Algo = 0
		}
		if c.Param.Skew == 11 && weighted(t, "keepBadSkew", 3, 1) == 0 {
			c.Param.Skew = 2
		}
		switch weighted(t, "pmode", 6, 1, 3) {
		case 1:
			c.PMode = 1
		case 2:
			if nSharedP > 0 {
				c.PMode = 2 + rapid.IntRange(0, nSharedP-1).Draw(t, "sharedParam")
			}
		}
		c.Sec = rapid.SampledFrom([]int64{0, 29, 30, 59, 1_700_000_000, 1<<31 - 1, 1 << 40}).Draw(t, "sec") + rapid.Int64Range(0, 100).Draw(t, "secOff")
		c.Nsec = rapid.SampledFrom([]int64{0, 1, 999_999_999}).Draw(t, "nsec")
		c.CodeMode = weighted(t, "codeMode", 5, 2, 2, 1)
		if c.CodeMode == 3 {
			c.Str = rapid.StringMatching(`[0-9]{0,11}`).Draw(t, "codeStr")
		}
		if (c.Op == "ValidateHOTP" || c.Op == "ValidateTOTP") && weighted(t, "zeroDigits?", 15, 1) == 1 {
			// a zero-valued Digits field in an otherwise filled-in Param: legal for
			// validation (any non-empty code is simply of the wrong length)
			c.Param.Digits = 0
			c.CodeMode = 3
			c.Str = rapid.StringMatching(`[0-9]{1,8}`).Draw(t, "codeStrNonEmpty")
			if c.PMode >= 2 {
				c.PMode = 0
			}
		}
	case "GenerateOCRA", "ValidateOCRA", "InputValidate":
		c.Secret = genSecret(t)
		c.Spell = rapid.IntRange(0, 5).Draw(t, "spell")
		c.Suite = genSuite(t)
		c.In = genOCRAFields(t, c.Suite, nSharedF)
		c.CodeMode = weighted(t, "codeMode", 5, 2, 0, 1)
		if c.CodeMode == 3 {
			c.Str = rapid.StringMatching(`[0-9]{0,11}`).Draw(t, "codeStr")
		}
	case "NewRawSuite", "IsKnownSuite", "SuiteConfigFromRaws":
		switch weighted(t, "rawKind", 5, 3, 2) {
		case 0:
			c.Str = rapid.SampledFrom(sortedSuites).Draw(t, "suiteName")
		case 1:
			// an unregistered but well-formed name, most likely new to this process
			c.Str = "OCRA-1:HOTP-" + rapid.SampledFrom([]string{"SHA1", "SHA256", "SHA512"}).Draw(t, "nHash") + "-" + itoa(rapid.IntRange(4, 10).Draw(t, "nDig")) +
				":QN08-T" + itoa(rapid.IntRange(1, 59).Draw(t, "nTn")) + rapid.SampledFrom([]string{"S", "M", "H"}).Draw(t, "nTu")
		default:
			c.Str = rapid.SampledFrom([]string{"", "OCRA-1", "OCRA-1:HOTP-SHA1-6:QA08", "OCRA-2:HOTP-SHA1-6:QN08", "OCRA-1:HOTP-SHA1-x:QN08", "OCRA-1:HOTP-SHA1-6:QN08-T0S", "nonsense"}).Draw(t, "badSuite")
		}
	case "NewSuite", "SuiteValidate":
		c.Suite = genSuite(t)
		if c.Suite.Mode == "registered" || c.Suite.Mode == "parsed" {
			c.Suite = SuiteSpec{Mode: "config", Hash: rapid.IntRange(0, 3).Draw(t, "h"), Digits: rapid.IntRange(3, 11).Draw(t, "d"), Challenge: rapid.IntRange(0, 6).Draw(t, "ch"),
				C: rapid.Bool().Draw(t, "C"), Q: rapid.Bool().Draw(t, "Q"), P: rapid.Bool().Draw(t, "P"), S: rapid.Bool().Draw(t, "S"), T: rapid.Bool().Draw(t, "T"),
				PHash: rapid.IntRange(0, 3).Draw(t, "ph"), TimeStep: rapid.IntRange(-1, 60).Draw(t, "ts")}
		}
	case "DecodeSecret":
		c.Secret = genSecret(t)
		c.Spell = rapid.IntRange(0, 6).Draw(t, "spell")
	case "GenerateHOTPURL", "GenerateTOTPURL", "ParseOTPAuthURL":
		c.Str = rapid.SampledFrom([]string{"Example", "ACME Co", "", "a/b", "ü"}).Draw(t, "issuer")
		c.Str2 = rapid.SampledFrom([]string{"alice@example.com", "bob", "", "x y"}).Draw(t, "account")
		c.Secret = genSecret(t)
		c.Param = genParam(t)
		c.N = rapid.IntRange(0, 11).Draw(t, "urlVariant")
	case "RandomSecret":
		c.Param.Algo = rapid.SampledFrom([]int{0, 1, 2, 0, 1, 2, 3, 4, 128, 255}).Draw(t, "algo")
	case "ParseDecimalToBigEndian8", "ParseDecimal64BigEndian", "ParseDecimalChallengeRFC6287":
		c.Str = rapid.OneOf(rapid.StringMatching(`[0-9]{1,25}`), rapid.SampledFrom([]string{"", "0", "18446744073709551615", "18446744073709551616", "-1", "+5", "12a", " 7"})).Draw(t, "dec")
	case "LeftPadHex", "ParseHexTimestamp":
		c.Str = rapid.OneOf(rapid.StringMatching(`[0-9a-fA-F]{0,20}`), rapid.SampledFrom([]string{"", "xyz", "123"})).Draw(t, "hex")
		c.N = rapid.IntRange(0, 40).Draw(t, "width")
	case "SuiteChurn":
		// many DISTINCT unregistered suite names looked up twice in one history
		c.N = rapid.IntRange(0, 3000).Draw(t, "churnBase")
		c.Counter = uint64(rapid.SampledFrom([]int{20, 70, 140, 300, 600}).Draw(t, "churnCount"))
	case "To8ByteBigEndian":
		c.Counter = rapid.Uint64().Draw(t, "v")
	case "HexInputToOCRA":
		c.Str = rapid.StringMatching(`([0-9a-f]{2}){0,12}[g]?`).Draw(t, "hexes")
		c.N = rapid.IntRange(0, 31).Draw(t, "mask")
	case "FromStr":
		c.Str = rapid.SampledFrom([]string{"6", "8", "9", "10", "7", "", "SHA1", "SHA256", "SHA512", "sha1", "MD5"}).Draw(t, "fromStr")
		c.N = rapid.IntRange(0, 255).Draw(t, "algoVal")
	}
	return c
}

func genSched(t *rapid.T, nTasks int) SchedSpec {
	var s SchedSpec
	maxGap := rapid.SampledFrom([]int{2, 6, 20, 60, 200, 2000}).Draw(t, "maxGap")
	n := rapid.IntRange(0, 60).Draw(t, "nSwitches")
	for i := 0; i < n; i++ {
		s.After = append(s.After, uint16(rapid.IntRange(0, maxGap).Draw(t, "after")))
		s.To = append(s.To, uint16(rapid.IntRange(0, 63).Draw(t, "to")))
	}
	nSites := len(verifrt.Sites)
	if nSites > 0 && weighted(t, "hot?", 1, 2) == 1 {
		var poolSites []int
		for _, si := range verifrt.Sites {
			if si.Pool {
				poolSites = append(poolSites, si.ID)
			}
		}
		nh := rapid.IntRange(1, 4).Draw(t, "nHot")
		for i := 0; i < nh; i++ {
			if len(poolSites) > 0 && weighted(t, "hotPool?", 1, 3) == 1 {
				s.HotSites = append(s.HotSites, rapid.SampledFrom(poolSites).Draw(t, "hotSiteP"))
			} else {
				s.HotSites = append(s.HotSites, rapid.IntRange(0, nSites-1).Draw(t, "hotSite"))
			}
		}
		nd := rapid.IntRange(1, 40).Draw(t, "nHotDec")
		for i := 0; i < nd; i++ {
			s.Hot = append(s.Hot, uint16(rapid.IntRange(0, 8).Draw(t, "hotDec")))
		}
	}
	s.First = rapid.IntRange(0, nTasks).Draw(t, "first")
	if nTasks > 1 && weighted(t, "stalledCaller?", 2, 1) == 1 {
		// one caller stalls at a chosen statement of a call and stays descheduled while the others run on
		s.Starve = 1 + rapid.IntRange(0, nTasks-1).Draw(t, "starve")
		s.StarveAt = uint64(rapid.IntRange(1, 120).Draw(t, "starveAt"))
	}
	// the scheduling point behind every chunk the random reader delivers can be hot too
	if weighted(t, "hotReader?", 2, 1) == 1 {
		s.HotReader = true
		if nTasks > 16 {
			// park every caller right after its read: as many calls in flight as there are tasks
			s.Hot = s.Hot[:0]
			for i := 0; i < nTasks+8; i++ {
				s.Hot = append(s.Hot, uint16(1+rapid.IntRange(0, 3).Draw(t, "hotRd")))
			}
		}
	}
	return s
}

func GenPlan(t *rapid.T, prop string) *Plan {
	p := &Plan{Prop: prop}
	genFamily(t)
	p.RefAfter = rapid.Bool().Draw(t, "refAfter")
	maxTasks := rapid.SampledFrom([]int{2, 3, 4, 8, 16, 64}).Draw(t, "maxTasks")
	if prop == "C08" {
		// mostly 1..16 callers; some runs have more callers in flight than any
		// fixed-size ring of scratch slots a changed tree might use
		maxTasks = rapid.SampledFrom([]int{2, 4, 8, 16, 16, 16, 70, 140, 300}).Draw(t, "maxTasksC08")
	}
	nt := rapid.IntRange(1, maxTasks).Draw(t, "nTasks")
	if prop == "C08" && maxTasks > 16 {
		nt = rapid.IntRange(maxTasks/2, maxTasks).Draw(t, "nTasksMany")
	}
	maxCalls := 40
	longHistory := false
	if nt > 16 {
		maxCalls = 2
	}
	if nt > 8 {
		maxCalls = 6
	} else if nt > 3 {
		maxCalls = 12
	}
	nsp := rapid.IntRange(0, 3).Draw(t, "nSharedParams")
	for i := 0; i < nsp; i++ {
		p.SharedParams = append(p.SharedParams, genParam(t))
	}
	nsf := 0
	if prop == "C12" || prop == "C11" {
		nsf = rapid.IntRange(0, 4).Draw(t, "nSharedFields")
	}
	for i := 0; i < nsf; i++ {
		n := rapid.SampledFrom([]int{8, 10, 20, 32, 64, 127, 128}).Draw(t, "sharedLen")
		f := genField(t, "shared", n, 0)
		p.SharedFields = append(p.SharedFields, f)
	}
	for i := 0; i < nt; i++ {
		if i == 0 && nt <= 3 && weighted(t, "longHistory?", 9, 1) == 1 {
			// state that only builds up over many calls (rings of reusable buffers,
			// counters, caches with eviction): a few runs are long
			longHistory = true
		}
		nc := rapid.IntRange(1, maxCalls).Draw(t, "nCalls")
		if longHistory {
			lens := []int{70, 130, 260, 520}
			if verifh.Thorough() {
				lens = []int{70, 260, 520, 1100, 2300}
			}
			nc = rapid.SampledFrom(lens).Draw(t, "nCallsLong")
		}
		var calls []Call
		for j := 0; j < nc; j++ {
			if i > 0 && ((prop == "C13" && weighted(t, "sameAsOtherTaskC13?", 1, 1) == 1) || (prop != "C13" && weighted(t, "sameAsOtherTask?", 6, 1) == 1)) {
				// the very same call issued by several tasks (what a cache or a
				// "collapse identical requests" layer keys on)
				other := p.Tasks[rapid.IntRange(0, i-1).Draw(t, "copyTask")]
				calls = append(calls, other[rapid.IntRange(0, len(other)-1).Draw(t, "copyCall")])
				continue
			}
			if longHistory && j >= 12 {
				// long histories repeat a short palette (keeps plan generation and shrinking cheap)
				calls = append(calls, calls[rapid.IntRange(0, 11).Draw(t, "repeatOf")])
				continue
			}
			calls = append(calls, genCall(t, prop, nsp, nsf))
		}
		p.Tasks = append(p.Tasks, calls)
	}
	if prop != "C08" && nt <= 4 && weighted(t, "repeat?", 30, 1) == 1 {
		// state that builds up over thousands of calls (rings of reusable buffers,
		// wrapping counters, caches that evict): one call of one task is executed
		// thousands of times in a row - at most one such call per plan
		ti := rapid.IntRange(0, nt-1).Draw(t, "repeatTask")
		ci := rapid.IntRange(0, len(p.Tasks[ti])-1).Draw(t, "repeatCall")
		reps := []int{300, 1100, 4200, 9000}
		if verifh.Thorough() {
			reps = []int{300, 1100, 4200, 9000, 17000, 70000}
		}
		p.Tasks[ti][ci].Repeat = rapid.SampledFrom(reps).Draw(t, "repeat")
	}
	if weighted(t, "warm?", 2, 1) == 1 {
		nw := rapid.IntRange(1, 10).Draw(t, "nWarm")
		for j := 0; j < nw; j++ {
			p.Warm = append(p.Warm, genCall(t, prop, nsp, nsf))
		}
	}
	if weighted(t, "adversary?", 1, 1) == 1 {
		na := rapid.IntRange(1, 12).Draw(t, "nAdv")
		for j := 0; j < na; j++ {
			p.Adv = append(p.Adv, AdvOp{
				Kind:  rapid.SampledFrom([]string{"scribble", "scribble", "scribble", "drain", "gc", "audit"}).Draw(t, "advKind"),
				Pool:  rapid.IntRange(0, 7).Draw(t, "advPool"),
				Which: rapid.IntRange(0, 7).Draw(t, "advWhich"),
				Byte:  rapid.Byte().Draw(t, "advByte"),
				Len:   rapid.IntRange(0, 300).Draw(t, "advLen"),
			})
		}
	}
	total := nt
	if len(p.Adv) > 0 {
		total++
	}
	p.Sched = genSched(t, total)
	p.Pool = PoolSpec{
		Poison:     weighted(t, "poison", 1, 3) == 1,
		PoisonSeed: rapid.Uint64().Draw(t, "poisonSeed"),
		MissW:      rapid.SampledFrom([]int{0, 2, 5, 50}).Draw(t, "missW"),
		DropW:      rapid.SampledFrom([]int{0, 2, 5, 50}).Draw(t, "dropW"),
	}
	nd := rapid.IntRange(0, 120).Draw(t, "nPoolDec")
	for i := 0; i < nd; i++ {
		p.Pool.Dec = append(p.Pool.Dec, uint16(rapid.IntRange(0, 1000).Draw(t, "poolDec")))
	}
	p.Reader = ReaderSpec{Kind: rapid.IntRange(0, 4).Draw(t, "readerKind"), Seed: rapid.Uint64().Draw(t, "readerSeed")}
	nc := rapid.IntRange(0, 80).Draw(t, "nChunks")
	chunkMax := rapid.SampledFrom([]int{1, 3, 16, 64}).Draw(t, "chunkMax")
	for i := 0; i < nc; i++ {
		p.Reader.Chunks = append(p.Reader.Chunks, uint16(rapid.IntRange(0, chunkMax).Draw(t, "chunk")))
	}
	return p
}

func itoa(i int) string {
	if i == 0 {
		return "0"
	}
	var b [20]byte
	n := len(b)
	for i > 0 {
		n--
		b[n] = byte('0' + i%10)
		i /= 10
	}
	return string(b[n:])
}
