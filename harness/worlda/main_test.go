package worlda

import (
	"encoding/json"
	"fmt"
	"os"
	"regexp"
	"sort"
	"strings"
	"testing"

	"github.com/ja7ad/otp/internal/verifh"
	"github.com/ja7ad/otp/internal/verifrt"
	"pgregory.net/rapid"
)

func TestMain(m *testing.M) {
	verifrt.StrictSpawn = true
	verifrt.ParkRaceTest = os.Getenv("VERIF_PARKRACE") != ""
	verifh.Main(m, "A")
}

// ---------------------------------------------------------------------------
// race reports (race build only): the detector writes to GORACE log_path.<pid>

var raceLogPath = func() string {
	for _, f := range strings.Fields(os.Getenv("GORACE")) {
		if v, ok := strings.CutPrefix(f, "log_path="); ok {
			return fmt.Sprintf("%s.%d", v, os.Getpid())
		}
	}
	return ""
}()

var raceOff int64

var frameRe = regexp.MustCompile(`^  ([^\s].*)\(\)$`)

// newRaceReports returns the reports appended to the race log since the last call.
func newRaceReports() []string {
	if raceLogPath == "" {
		return nil
	}
	st, err := os.Stat(raceLogPath)
	if err != nil || st.Size() <= raceOff {
		return nil
	}
	b, err := os.ReadFile(raceLogPath)
	if err != nil {
		return nil
	}
	chunk := string(b[raceOff:])
	raceOff = int64(len(b))
	var out []string
	for _, r := range strings.Split(chunk, "==================") {
		if strings.Contains(r, "DATA RACE") {
			out = append(out, r)
		}
	}
	return out
}

// classifyRace: a report counts as a violation of the library only if in both
// access stacks the first frame inside the module is a frame of package otp
// itself (not harness, not verifrt). Returns the two functions, or ok=false.
func classifyRace(rep string) (a, b string, ok bool) {
	var stacks [][]string
	var cur []string
	in := false
	for _, l := range strings.Split(rep, "\n") {
		t := strings.TrimSpace(l)
		switch {
		case strings.HasPrefix(t, "Read at"), strings.HasPrefix(t, "Write at"), strings.HasPrefix(t, "Previous read"), strings.HasPrefix(t, "Previous write"),
			strings.HasPrefix(t, "Atomic"), strings.HasPrefix(t, "Previous atomic"):
			if in {
				stacks = append(stacks, cur)
			}
			cur, in = nil, true
		case strings.HasPrefix(t, "Goroutine "):
			if in {
				stacks = append(stacks, cur)
			}
			cur, in = nil, false
		default:
			if in {
				if m := frameRe.FindStringSubmatch(l); m != nil {
					cur = append(cur, m[1])
				}
			}
		}
	}
	if in {
		stacks = append(stacks, cur)
	}
	if len(stacks) < 2 {
		return "", "", false
	}
	first := func(st []string) (string, bool) {
		for _, f := range st {
			if f == "github.com/ja7ad/otp/internal/verifrt.(*Reader).Read" {
				// the simulated random source fills the buffer its caller handed to
				// crypto/rand: the access belongs to the library frame further down
				continue
			}
			if strings.HasPrefix(f, "github.com/ja7ad/otp/internal/verif") {
				return f, false
			}
			if strings.HasPrefix(f, "github.com/ja7ad/otp.") {
				return strings.TrimPrefix(f, "github.com/ja7ad/otp."), true
			}
		}
		return "", false
	}
	fa, oka := first(stacks[0])
	fb, okb := first(stacks[1])
	// the pool adversary legitimately owns what it took out of a pool: a race
	// between its scribbling and a library frame means the library still uses
	// an object after Put (or before Get)
	poolSide := func(f string) bool {
		return f == "github.com/ja7ad/otp/internal/verifw/worlda.(*env).advBody" ||
			f == "github.com/ja7ad/otp/internal/verifrt.poison" // poison-on-Put by the next owner of the object
	}
	if !oka && !okb && poolSide(fa) && poolSide(fb) {
		// two legitimate owners scribble over the same pooled object: it was handed
		// out twice (double Put, or use after Put by a library frame that already returned)
		return "pool-adversary", "pool-adversary", true
	}
	if oka && !okb && poolSide(fb) {
		return fa, "pool-adversary", true
	}
	if okb && !oka && poolSide(fa) {
		return fb, "pool-adversary", true
	}
	if !oka || !okb {
		return fa, fb, false
	}
	p := []string{fa, fb}
	sort.Strings(p)
	return p[0], p[1], true
}

func raceViolation(prop string) *verifh.Violation {
	reps := newRaceReports()
	if len(reps) == 0 {
		return nil
	}
	for _, rep := range reps {
		a, b, ok := classifyRace(rep)
		if !ok {
			verifh.HarnessError("race report that does not lie between two library frames (first module frames: %q, %q):\n%s", a, b, rep)
			continue
		}
		if prop != "C11" {
			verifh.Count("race-reports-ignored(not C11)", 1)
			continue
		}
		return &verifh.Violation{Property: "C11", Clause: "race-free", Op: a + "×" + b, Witness: "data-race",
			Detail: "race detector (invisible baton, serialised execution): " + strings.TrimSpace(rep)}
	}
	return nil
}

func TestSim(t *testing.T) {
	prop := verifh.Prop()
	switch prop {
	case "C08", "C11", "C12", "C13", "C02", "C03", "C04", "C06":
	default:
		t.Skip("VERIF_PROP not a World A property")
	}
	logOn := os.Getenv("VERIF_EVENTLOG") != ""
	var logw *os.File
	if logOn {
		var err error
		logw, err = os.Create(os.Getenv("VERIF_EVENTLOG"))
		if err != nil {
			t.Fatal(err)
		}
		defer logw.Close()
	}
	one := func(p *Plan) *verifh.Violation {
		v, info := Run(p, logOn)
		if logOn {
			logw.WriteString("RUN\n" + strings.Join(info.log, "\n") + "\n")
		}
		verifh.RunDone(info.nontrivial, p)
		if rv := raceViolation(prop); rv != nil && v == nil {
			v = rv
		}
		return v
	}
	verifh.Drive(t, "A", func(_ *testing.T, rt *rapid.T) {
		p := GenPlan(rt, prop)
		if prop == "C11" {
			// only the property about what every call returns may read a dead process as a verdict
			verifh.Pending("A", p)
		}
		if v := one(p); v != nil {
			verifh.Report(rt, "A", p, v)
		}
	}, func(raw json.RawMessage) *verifh.Violation {
		var p Plan
		if err := json.Unmarshal(raw, &p); err != nil {
			t.Fatalf("HARNESS-ERROR: bad plan: %v", err)
		}
		return one(&p)
	})
}
