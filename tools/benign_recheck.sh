#!/bin/bash
# usage: tools/benign_recheck.sh [budget] [ids...] -- all ten checks against every property-preserving change in /verif/benign
budget=${1:-6}; shift
ids=${@:-$(ls /verif/benign)}
for id in $ids; do
  d=/verif/benign/$id
  tree=$(mktemp -d /tmp/benign-XXXXXX); rmdir $tree
  git -C /repo worktree add -q --detach $tree HEAD || continue
  git -C $tree apply $d/patch.diff || { echo "$id PATCH DOES NOT APPLY"; git -C /repo worktree remove --force $tree; continue; }
  res=""
  for c in C02 C03 C04 C06 C08 C11 C12 C13 C18 C19; do
    out=$(cd /verif && VERIF_REPO=$tree VERIF_EVIDENCE_DIR=/tmp/verif-benign-evidence VERIF_REPLAYS=/tmp/verif-benign-replays/$id VERIF_BUDGET=$budget ./bin/verif check $c 2>&1)
    code=$(echo "$out" | grep -o "exit=[0-9]" | tail -1)
    res="$res $c:$code"
    if [ "$code" != "exit=0" ]; then echo "---- $c on benign $id:"; echo "$out" | grep -E "VIOLATION|signature|detail|INFRA" | head -6 | cut -c1-500; fi
  done
  echo "RESULT $id:$res"
  python3 - "$d" "$res" "$budget" <<'PY'
import json,sys,os
d,res,budget=sys.argv[1:]
r=dict(x.split(':') for x in res.split())
p=d+'/meta.json'
m=json.load(open(p)) if os.path.exists(p) else {}
m['recheck']={'checks':r,'budget_s_per_worker':int(budget),'all_silent':all(v=="exit=0" for v in r.values())}
json.dump(m,open(p,'w'),indent=1)
PY
  git -C /repo worktree remove --force $tree; git -C /repo worktree prune
done
