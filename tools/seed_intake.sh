#!/bin/bash
# usage: tools/seed_intake.sh <prop> <n> [budget]
# Independently confirms a sub-agent's seeded change in a fresh worktree, then runs our check against it.
set -u
prop=$1; n=$2; budget=${3:-12}
src=/tmp/wt-$prop-$n/SEEDED
dst=/verif/seeded/$prop-$n
[ -f $src/patch.diff ] || { echo "no patch in $src"; exit 2; }
mkdir -p $dst
cp $src/patch.diff $dst/patch.diff
for f in $src/*_test.go; do cp $f $dst/; done
[ -f $src/notes.md ] && cp $src/notes.md $dst/notes.md
demo=$(ls $dst/*_test.go | head -1)
pkg=$(grep -m1 '^package ' $demo | awk '{print $2}')
ver=/tmp/ver-$prop-$n
git -C /repo worktree remove --force $ver 2>/dev/null
git -C /repo worktree add -q --detach $ver HEAD || exit 2
cleanup() { git -C /repo worktree remove --force $ver 2>/dev/null; }
trap cleanup EXIT
cd $ver
E="env -u GOFLAGS -u GOTOOLCHAIN -u GOSUMDB"
case $pkg in
  otp|otp_test) demodir=$ver; runcmd="$E go test -count=1 -run . ." ;;
  api|api_test) demodir=$ver/internal/app/api; runcmd="cd $ver/internal/app && $E go test -count=1 ./api/" ;;
  *) echo "unknown demo package $pkg"; exit 2;;
esac
git apply $dst/patch.diff || { echo "PATCH DOES NOT APPLY"; exit 2; }
suite="FAIL"
( cd $ver && $E go build ./... && $E go test -count=1 ./... ) >/tmp/seed-suite.log 2>&1 && ( cd $ver/internal/app && $E go build ./... && $E go test -count=1 ./... ) >>/tmp/seed-suite.log 2>&1 && suite="pass"
echo "existing suite with change: $suite"
cp $demo $demodir/
demoname=$(grep -o '^func Test[A-Za-z0-9_]*' $demo | awk '{print $2}' | paste -sd'|')
if [ "$pkg" = otp ] || [ "$pkg" = otp_test ]; then
  democmd="cd $ver && $E go test -count=1 -run '^($demoname)\$' ."
else
  democmd="cd $ver/internal/app && $E go test -count=1 -run '^($demoname)\$' ./api/"
fi
with="pass"; bash -c "$democmd" >/tmp/seed-demo-with.log 2>&1 || with="FAIL"
git apply -R $dst/patch.diff
without="pass"; bash -c "$democmd" >/tmp/seed-demo-without.log 2>&1 || without="FAIL"
echo "demo with change: $with (want FAIL); demo without change: $without (want pass)"
cd /verif
out=$(tools/mutant_run.sh $dst/patch.diff $prop $budget 2>&1)
echo "$out" | cut -c1-500
caught="no"; echo "$out" | grep -q "^VIOLATION property=$prop" && caught="yes"
sigs=$(echo "$out" | grep "signature:" | sed 's/.*signature: //' | paste -sd';')
python3 - "$prop" "$n" "$suite" "$with" "$without" "$caught" "$sigs" "$democmd" "$budget" <<'PY'
import json,sys,os
prop,n,suite,withc,without,caught,sigs,democmd,budget=sys.argv[1:]
d='/verif/seeded/%s-%s'%(prop,n)
notes=open(d+'/notes.md').read() if os.path.exists(d+'/notes.md') else ''
meta={"property":prop,"origin":"independent sub-agent given only the property text and a scratch worktree (/tmp/wt-%s-%s)"%(prop,n),
 "existing_suite_with_change":suite,"demo_with_change":withc,"demo_without_change":without,
 "demo_command":democmd.replace('/tmp/ver-%s-%s'%(prop,n),'<worktree>'),
 "check_command":"tools/mutant_run.sh seeded/%s-%s/patch.diff %s %s  (git -C /repo apply; bin/verif check %s with VERIF_BUDGET=%s; git checkout -- .)"%(prop,n,prop,budget,prop,budget),
 "caught_by_check":caught,"signatures":sigs.split(';') if sigs else [],
 "needs_to_manifest":"see notes.md (agent's description)","confirmed":"%s"%(suite=='pass' and withc=='FAIL' and without=='pass')}
json.dump(meta,open(d+'/meta.json','w'),indent=1)
print("meta:",json.dumps({k:meta[k] for k in ('existing_suite_with_change','demo_with_change','demo_without_change','caught_by_check','signatures')}))
PY
