// Command mutgen writes single-site syntactic mutants of Go files as unified
// diffs (one file per mutant): relational / arithmetic / logical operator
// swaps, integer constants +-1, negated conditions, boolean literals and
// dropped guard conditions. It is the "blind" complement of the seeded changes
// written by sub-agents: tools/mutant_sweep.sh runs the checks against every
// mutant that still passes the repository's own tests.
//
// usage: mutgen <repo dir> <out dir> <file.go>...
package main

import (
	"fmt"
	"go/ast"
	"go/parser"
	"go/token"
	"os"
	"os/exec"
	"path/filepath"
	"strconv"
	"strings"
)

type mut struct {
	off, end int
	repl     string
	desc     string
}

func main() {
	if len(os.Args) < 4 {
		fmt.Fprintln(os.Stderr, "usage: mutgen <repo> <out> <files...>")
		os.Exit(2)
	}
	repo, out := os.Args[1], os.Args[2]
	_ = os.MkdirAll(out, 0o755)
	n := 0
	for _, rel := range os.Args[3:] {
		path := filepath.Join(repo, rel)
		src, err := os.ReadFile(path)
		if err != nil {
			fmt.Fprintln(os.Stderr, err)
			continue
		}
		fset := token.NewFileSet()
		f, err := parser.ParseFile(fset, path, src, 0)
		if err != nil {
			fmt.Fprintln(os.Stderr, err)
			continue
		}
		tf := fset.File(f.Pos())
		off := func(p token.Pos) int { return tf.Offset(p) }
		var ms []mut
		add := func(a, b token.Pos, repl, desc string) {
			ms = append(ms, mut{off(a), off(b), repl, fmt.Sprintf("%s:%d %s", rel, fset.Position(a).Line, desc)})
		}
		swap := map[token.Token][]string{
			token.LSS: {"<="}, token.LEQ: {"<"}, token.GTR: {">="}, token.GEQ: {">"},
			token.EQL: {"!="}, token.NEQ: {"=="}, token.ADD: {"-"}, token.SUB: {"+"},
			token.LAND: {"||"}, token.LOR: {"&&"}, token.MUL: {"/"}, token.QUO: {"*"},
			token.REM: {"/"}, token.SHL: {">>"}, token.SHR: {"<<"}, token.AND: {"|"}, token.OR: {"&"},
		}
		ast.Inspect(f, func(nd ast.Node) bool {
			switch x := nd.(type) {
			case *ast.GenDecl:
				if x.Tok == token.IMPORT {
					return false
				}
			case *ast.BinaryExpr:
				if x.Op == token.ADD {
					// string concatenation: skip when an operand is a string literal
					if l, ok := x.X.(*ast.BasicLit); ok && l.Kind == token.STRING {
						return true
					}
					if r, ok := x.Y.(*ast.BasicLit); ok && r.Kind == token.STRING {
						return true
					}
				}
				for _, r := range swap[x.Op] {
					add(x.OpPos, x.OpPos+token.Pos(len(x.Op.String())), r, fmt.Sprintf("%s -> %s", x.Op, r))
				}
			case *ast.BasicLit:
				if x.Kind == token.INT {
					if v, err := strconv.ParseInt(x.Value, 0, 64); err == nil && v >= 0 && v < 1<<31 {
						add(x.Pos(), x.End(), strconv.FormatInt(v+1, 10), fmt.Sprintf("%s -> %d", x.Value, v+1))
						if v > 0 {
							add(x.Pos(), x.End(), strconv.FormatInt(v-1, 10), fmt.Sprintf("%s -> %d", x.Value, v-1))
						}
					}
				}
			case *ast.UnaryExpr:
				if x.Op == token.NOT {
					add(x.OpPos, x.OpPos+1, "", "drop !")
				}
			case *ast.Ident:
				if x.Obj == nil && (x.Name == "true" || x.Name == "false") {
					r := "true"
					if x.Name == "true" {
						r = "false"
					}
					add(x.Pos(), x.End(), r, x.Name+" -> "+r)
				}
			case *ast.IfStmt:
				if x.Init == nil {
					// the guard never fires / always fires
					add(x.Cond.Pos(), x.Cond.End(), "false", "if-condition -> false")
				}
			}
			return true
		})
		for _, m := range ms {
			mutated := string(src[:m.off]) + m.repl + string(src[m.end:])
			tmp := filepath.Join(out, "tmp.go")
			_ = os.WriteFile(tmp, []byte(mutated), 0o644)
			cmd := exec.Command("diff", "-u", "--label", "a/"+rel, "--label", "b/"+rel, path, tmp)
			d, _ := cmd.Output()
			_ = os.Remove(tmp)
			if len(d) == 0 {
				continue
			}
			n++
			name := fmt.Sprintf("m%04d", n)
			_ = os.WriteFile(filepath.Join(out, name+".patch"), d, 0o644)
			_ = os.WriteFile(filepath.Join(out, name+".desc"), []byte(strings.TrimSpace(m.desc)+"\n"), 0o644)
		}
	}
	fmt.Println(n, "mutants")
}
