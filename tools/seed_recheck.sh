#!/bin/bash
# usage: tools/seed_recheck.sh [budget] [ids...]  -- re-runs the owning check against every seeded change and records the outcome in meta.json
budget=${1:-12}; shift
ids=${@:-$(ls /verif/seeded)}
for id in $ids; do
  d=/verif/seeded/$id; prop=$(jq -r .property $d/meta.json)
  out=$(/verif/tools/mutant_run.sh $d/patch.diff $prop $budget 2>&1)
  caught=no; echo "$out" | grep -q "^VIOLATION property=$prop" && caught=yes
  sigs=$(echo "$out" | grep "signature:" | sed 's/.*signature: //' | sort -u | paste -sd';')
  infra=$(echo "$out" | grep -c "^INFRASTRUCTURE")
  python3 - "$d" "$caught" "$sigs" "$infra" "$budget" <<'PY'
import json,sys
d,caught,sigs,infra,budget=sys.argv[1:]
m=json.load(open(d+'/meta.json'))
m['recheck']={'caught':caught,'signatures':sigs.split(';') if sigs else [],'infrastructure_messages':int(infra),'budget_s_per_worker':int(budget)}
json.dump(m,open(d+'/meta.json','w'),indent=1)
PY
  echo "$id $prop caught=$caught infra=$infra sigs=$(echo $sigs | cut -c1-160)"
done
