#!/bin/bash
# usage: tools/mutant_run.sh <patch> <property> [budget]
# Runs one check against a changed tree. Default: the patch is applied to a scratch git worktree of /repo
# (under /tmp, removed afterwards) and the runner is pointed at it with VERIF_REPO, so /repo itself is never
# touched and background runs are not disturbed. MUTANT_IN_REPO=1 applies it to /repo itself instead
# (git -C /repo apply; run; git -C /repo checkout -- .).
set -u
patch=$(readlink -f "$1"); prop=$2; budget=${3:-10}
E="env -u GOFLAGS -u GOTOOLCHAIN -u GOSUMDB"
if [ "${MUTANT_IN_REPO:-0}" = 1 ]; then
  cd /repo || exit 2
  if [ -n "$(git status --porcelain)" ]; then echo "/repo not clean"; exit 2; fi
  git apply "$patch" || { echo "patch does not apply"; exit 2; }
  trap 'git -C /repo checkout -- . ; git -C /repo clean -fdq' EXIT
  tree=/repo
else
  tree=$(mktemp -d /tmp/mutant-XXXXXX)
  rmdir "$tree"
  git -C /repo worktree add -q --detach "$tree" HEAD || exit 2
  trap 'git -C /repo worktree remove --force "$tree" 2>/dev/null; git -C /repo worktree prune' EXIT
  git -C "$tree" apply "$patch" || { echo "patch does not apply"; exit 2; }
fi
( cd "$tree" && $E go test -count=1 ./... >/dev/null 2>&1 && echo "repo tests: pass" ) || echo "repo tests: FAIL"
cd ${VERIF_HOME:-/verif} && VERIF_REPO=$tree VERIF_EVIDENCE_DIR=/tmp/verif-mutant-evidence VERIF_REPLAYS=${VERIF_REPLAYS:-/tmp/verif-mutant-replays} VERIF_BUDGET=$budget ./bin/verif check "$prop" 2>&1 | grep -E "VIOLATION|signature|detail|KNOWN|INFRA|note:|^verif: property.*exit" | cut -c1-400
