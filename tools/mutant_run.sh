#!/bin/bash
# usage: tools/mutant_run.sh <patch> <property> [budget]   (applies to /repo, runs the check, restores /repo)
set -u
patch=$(readlink -f "$1"); prop=$2; budget=${3:-10}
cd /repo || exit 2
if [ -n "$(git status --porcelain)" ]; then echo "/repo not clean"; exit 2; fi
git apply "$patch" || { echo "patch does not apply"; exit 2; }
trap 'git -C /repo checkout -- . ; git -C /repo clean -fdq' EXIT
(env -u GOFLAGS -u GOTOOLCHAIN -u GOSUMDB go test -count=1 ./... >/dev/null 2>&1 && echo "repo tests: pass") || echo "repo tests: FAIL"
cd /verif && VERIF_EVIDENCE_DIR=/tmp/verif-mutant-evidence VERIF_REPLAYS=${VERIF_REPLAYS:-/tmp/verif-mutant-replays} VERIF_BUDGET=$budget ./bin/verif check "$prop" 2>&1 | grep -E "VIOLATION|signature|detail|KNOWN|INFRA|^verif: property.*exit" | cut -c1-400
