#!/usr/bin/env python3
"""Generates /verif/MANIFEST.json. Edit CLAIMED/NA here, never the JSON by hand."""
import json, os, sys

ENV = "GOTOOLCHAIN=local GOPROXY=off GOSUMDB=off GOFLAGS=-mod=mod"
CLAIMED = {
 "C02": ("3.2 C02", "World B discrete-event simulation: TOTP tokens whose clocks are skewed, drift and are jumped onto step boundaries (+-2 s, +-1 ns) by the fault injector; every reading of GenerateTOTP (in several zones, with/without monotonic reading, different nanoseconds) is compared with GenerateHOTP at the step the simulator computed from the integer seconds it put on the clock; default resolution cross-checked between generation, validation and URL; a quarter of the workers make the same calls in World A (baton scheduler, simulated sync.Pool) while other callers are inside the library: the answer must equal the answer to the same call made alone"),
 "C03": ("3.2 C03", "World B discrete-event simulation: HOTP tokens and a verifier over a lossy/duplicating/delaying/corrupting transport with lost submissions, token crash-restart, verifier restart without its last counter update, window reconfiguration mid-history with immediate re-submission, and replays; every ValidateHOTP verdict is compared with membership of the delivered string in the window set built with the library's own generator for the counters the simulator knows to be inside the window; a quarter of the workers make the same calls in World A (baton scheduler, simulated sync.Pool) while other callers are inside the library: the answer must equal the answer to the same call made alone"),
 "C04": ("3.2 C04", "World B discrete-event simulation: TOTP tokens and verifier with per-node clocks (offset, drift, jumps), network delay, aimed clock faults and window reconfiguration mid-history with immediate re-submission; every ValidateTOTP verdict is compared with membership in the step-window set; refusal of skew>10 and bounded work are judged with the statement work meter; a quarter of the workers make the same calls in World A (baton scheduler, simulated sync.Pool) while other callers are inside the library: the answer must equal the answer to the same call made alone"),
 "C06": ("3.2 C06", "World B discrete-event simulation of OCRA challenge/response sessions with lost, duplicated, reordered and corrupted challenges and answers, diverging counters/clocks/PIN/session/suite and inadmissible verifier input; every ValidateOCRA verdict is compared with GenerateOCRA called alone on the verifier's view; a quarter of the workers make the same calls in World A (baton scheduler, simulated sync.Pool) while other callers are inside the library: the answer must equal the answer to the same call made alone"),
 "C13": ("3.2 C13", "invariant riding on every verifier call and every failing operation of the World B simulation (all failure causes injected as faults): verdict is (true,nil) or (false,err); no error text contains the secret or an acceptable code; a quarter of the workers judge the same (ok, err) pairs in World A (baton scheduler, callers repeating each other's exact calls) for validations made while other callers are inside the library"),
 "C08": ("3.1 C08", "World A: crypto/rand.Reader replaced by a plan-determined, chunking, logging stream; 1-16 tasks call RandomSecret under the seeded baton scheduler; per-call and per-run conservation oracle over the bytes the reader handed out"),
 "C11": ("3.1 C11", "World A: seeded baton scheduler over an instrumented copy (yield before every statement), simulated sync.Pool (steal/miss/poison/drain/adversary), race-detector build with invisible baton; every concurrent result is compared with the same call executed alone, retained results are re-checked"),
 "C12": ("3.1 C12", "World A workload with canary arenas around every byte argument (all len/cap relations), shared parameter structs, scribbled results; arenas, argument copies, package defaults and suite registry compared after every call and at the end of every simulated history"),
 "C18": ("3.3 C18", "World C: the real api.Server (fasthttp, handlers, library) inside a testing/synctest bubble over simulated connections and fake clock; every well-formed response is compared with a request model that calls the library directly"),
 "C19": ("3.3 C19", "World C: adversarial requests and transport faults (fragmentation across read timeouts, resets, slow readers, pipelining, per-IP limits, restarts) against the real server in a synctest bubble; bounded response in simulated time, bounded work by statement meter, status classes, and interleaved probes checked with the request model"),
}
NA = {
 "C01": "pure function of (secret, counter, digits, hash): no schedule, clock, fault or history for a simulator to own; its only stateful aspect (the pooled counter buffer) is decided under C11",
 "C05": "pure function of suite, secret and input bytes (RFC 6287 message layout); the pooled message buffer aspect is decided under C11",
 "C07": "pure string function (base32 spellings); nothing nondeterministic or faulty to simulate",
 "C09": "statement about real CPU timing / data flow on all program paths; a simulator has logical time only and observes return values, which the property says are unaffected",
 "C10": "universal over argument values of pure functions (no panic for any input); no fault, interleaving or history involved - the client-reachable part is judged under C19",
 "C14": "pure admission predicate over lengths and flags",
 "C15": "pure parser/table fidelity (suite string -> configuration)",
 "C16": "pure string -> string -> struct round trip of provisioning URLs",
 "C17": "pure encoders (input helpers)",
 "C20": "cross-build differential comparison (js/wasm under Node vs native); runs single-threaded outside any Go simulator and time enters only as an argument",
}
built = sys.argv[1:]  # property ids whose checks exist
checks = []
for pid in sorted(CLAIMED):
    if pid not in built:
        continue
    ref, tech = CLAIMED[pid]
    checks.append({
        "property_id": pid,
        "quick_cmd": f"bin/verif check {pid} --tier quick",
        "thorough_cmd": f"bin/verif check {pid} --tier thorough",
        "evidence_file": f"evidence/{pid}.json",
        "replay_cmd_template": "bin/verif replay {path}",
        "engine": "verif-sim",
        "level_claimed": {
            "category": "exploration",
            "text": "Seeded search over simulated schedules / fault sequences: many short, diverse, exactly replayable runs of the real code under a simulator that owns every source of nondeterminism the property depends on. A clean batch is evidence, not proof; every failure is shrunk, written as a replay file and re-confirmed in a fresh process before it is reported.",
            "design_ref": "DESIGN.md " + ref,
        },
        "level_note": "Trusted: the Go toolchain and standard library, pgregory.net/rapid as sole source of choices, the statement instrumenter (gated by the repository's own tests on the instrumented copy), and the self-referential oracles (the library's own single calls executed alone; see DESIGN.md 3.0).",
        "technique": "deterministic simulation with fault injection: " + tech,
    })
na = [{"property_id": k, "reason": v} for k, v in sorted(NA.items())]
for pid in sorted(CLAIMED):
    if pid not in built:
        na.append({"property_id": pid, "reason": "check under construction in this session (planned: DESIGN.md " + CLAIMED[pid][0] + "); not claimed until its check is committed"})
m = {
 "version": 1,
 "setup_cmd": f"{ENV} go1.26.8 build -o bin/verif ./cmd/verif",
 "hooks": {
   "guard": "verif",
   "enable": "no hook is committed in /repo: at check time bin/verif copies /repo's working tree to a scratch directory, splices verifrt.Yield(<site>) in front of every statement of packages otp and internal/app/api (World A - and World B as soon as the root package contains a go statement - additionally redirects sync.Pool/Mutex/RWMutex/Once/WaitGroup, go statements, channel operations, close, range over channels and select statements to the scheduler-owned versions in verifrt), adds generated //go:build verif files (verifrt runtime, api.VerifServe accessor) and builds with go1.26.8 -tags verif",
   "baseline_off_cmd": "for m in . ./internal/app; do (cd /repo/$m && go test -vet=off -count=1 ./...) || exit 1; done",
   "source_commits": [],
   "add_only": True,
 },
 "engines": [{"name": "verif-sim", "path": "cmd/verif", "serves_properties": [c["property_id"] for c in checks],
              "kind_free_text": "deterministic simulation with fault injection: Go runner + go/ast instrumenter + verifrt runtime (work meter, baton scheduler, simulated pool/reader) + three simulated worlds (harness/worlda, worldb, worldc), plans drawn and shrunk by pgregory.net/rapid"}],
 "checks": checks,
 "not_applicable": na,
 "notes": "See DESIGN.md. Exit codes of every check: 0 held, 1 confirmed violation (VIOLATION line), 2 infrastructure trouble. Three genuine defects (C02, C03, C04/C19) were found by these checks and repaired by fix: commits in /repo; see known_findings.txt.",
}
json.dump(m, open(os.path.join(os.path.dirname(__file__), "..", "MANIFEST.json"), "w"), indent=1)
print("wrote MANIFEST.json with", len(checks), "checks,", len(na), "not_applicable")
