#!/bin/bash
# usage: tools/mutant_sweep.sh <mutants dir> <out.tsv> [budget]
# Blind sensitivity sweep: every syntactic mutant (tools/mutgen) that still compiles and passes the repository's own
# tests is run against the checks, most relevant first, until one reports a violation. Output: one line per mutant:
#   id <TAB> site and operator <TAB> killed-by-tests | caught:<check> | SURVIVED | infra:<check>
set -u
dir=$(readlink -f "$1"); out=$2; budget=${3:-5}
E="env -u GOFLAGS -u GOTOOLCHAIN -u GOSUMDB"
tree=$(mktemp -d /tmp/sweep-XXXXXX); rmdir "$tree"
git -C /repo worktree add -q --detach "$tree" HEAD || exit 2
trap 'git -C /repo worktree remove --force "$tree" 2>/dev/null; git -C /repo worktree prune' EXIT
: > "$out"
for p in "$dir"/m*.patch; do
  id=$(basename "$p" .patch); desc=$(cat "$dir/$id.desc")
  git -C "$tree" checkout -q -- . ; git -C "$tree" clean -fdq
  if ! git -C "$tree" apply "$p" 2>/dev/null; then printf "%s\t%s\tdoes-not-apply\n" "$id" "$desc" >> "$out"; continue; fi
  if ! ( cd "$tree" && $E go build ./... && $E go vet . >/dev/null 2>&1; cd "$tree" && $E go test -count=1 ./... && cd internal/app && $E go build ./... ) >/dev/null 2>&1; then
    printf "%s\t%s\tkilled-by-tests\n" "$id" "$desc" >> "$out"; continue
  fi
  file=${desc%%:*}
  case "$file" in
    hotp.go) order="C03 C13 C11 C12 C18 C19 C02 C04 C06 C08";;
    totp.go) order="C04 C02 C13 C11 C12 C18 C19 C03 C06 C08";;
    otp.go) order="C08 C02 C04 C13 C11 C12 C18 C03 C06 C19";;
    ocra.go|suite_rfc6287.go|utils.go|derive_rfc6287.go) order="C06 C13 C11 C12 C18 C19 C02 C03 C04 C08";;
    internal/app/*) order="C18 C19";;
    *) order="C03 C04 C06 C02 C13 C11 C12 C08 C18 C19";;
  esac
  verdict=SURVIVED
  for c in $order; do
    o=$(cd /verif && VERIF_REPO=$tree VERIF_EVIDENCE_DIR=/tmp/verif-sweep-evidence VERIF_REPLAYS=/tmp/verif-sweep-replays VERIF_BUDGET=$budget ./bin/verif check $c 2>&1)
    code=$(echo "$o" | grep -o "exit=[0-9]" | tail -1)
    if [ "$code" = "exit=1" ]; then verdict="caught:$c"; break; fi
    if [ "$code" != "exit=0" ]; then verdict="infra:$c"; break; fi
  done
  printf "%s\t%s\t%s\n" "$id" "$desc" "$verdict" >> "$out"
done
