#!/bin/bash
# usage: tools/benign_intake.sh <prop> <n> [budget]  -- a property-PRESERVING change written by a sub-agent:
# every check must stay silent on it (exit 0). Runs all ten checks against a scratch worktree with the change.
set -u
prop=$1; n=$2; budget=${3:-8}
src=/tmp/wt-$prop-$n/SEEDED; dst=/verif/benign/$prop-$n
[ -f $src/patch.diff ] || { echo "no patch in $src"; exit 2; }
mkdir -p $dst; cp $src/patch.diff $dst/; [ -f $src/notes.md ] && cp $src/notes.md $dst/
tree=$(mktemp -d /tmp/benign-XXXXXX); rmdir $tree
git -C /repo worktree add -q --detach $tree HEAD || exit 2
trap 'git -C /repo worktree remove --force $tree 2>/dev/null; git -C /repo worktree prune' EXIT
git -C $tree apply $dst/patch.diff || { echo "PATCH DOES NOT APPLY"; exit 2; }
E="env -u GOFLAGS -u GOTOOLCHAIN -u GOSUMDB"
suite=FAIL; ( cd $tree && $E go build ./... && $E go test -count=1 ./... && cd internal/app && $E go build ./... && $E go test -count=1 ./... ) >/tmp/benign-suite.log 2>&1 && suite=pass
echo "existing suite with change: $suite"
res=""
for c in C02 C03 C04 C06 C08 C11 C12 C13 C18 C19; do
  out=$(cd /verif && VERIF_REPO=$tree VERIF_EVIDENCE_DIR=/tmp/verif-benign-evidence VERIF_REPLAYS=/tmp/verif-benign-replays/$prop-$n VERIF_BUDGET=$budget ./bin/verif check $c 2>&1)
  code=$(echo "$out" | grep -o "exit=[0-9]" | tail -1)
  res="$res $c:$code"
  if [ "$code" != "exit=0" ]; then echo "---- $c on benign $prop-$n:"; echo "$out" | grep -E "VIOLATION|signature|detail|INFRA" | head -8 | cut -c1-600; fi
done
echo "RESULT $prop-$n:$res"
python3 - "$dst" "$suite" "$res" "$budget" <<'PY'
import json,sys
d,suite,res,budget=sys.argv[1:]
r=dict(x.split(':') for x in res.split())
json.dump({"kind":"property-preserving change by an independent sub-agent","existing_suite_with_change":suite,"checks":r,"budget_s_per_worker":int(budget),
 "all_silent": all(v=="exit=0" for v in r.values())},open(d+'/meta.json','w'),indent=1)
PY
