#!/bin/bash
# usage: tools/cross_matrix.sh [budget]  -- every seeded change against every check (cross-silence matrix) -> /verif/seeded/CROSS_MATRIX.tsv
budget=${1:-5}
out=/verif/seeded/CROSS_MATRIX.tsv
echo -e "seed\tC02\tC03\tC04\tC06\tC08\tC11\tC12\tC13\tC18\tC19" > $out
for id in $(ls /verif/seeded | grep -v CROSS); do
  tree=$(mktemp -d /tmp/cross-XXXXXX); rmdir $tree
  git -C /repo worktree add -q --detach $tree HEAD || continue
  git -C $tree apply /verif/seeded/$id/patch.diff || { git -C /repo worktree remove --force $tree; continue; }
  line="$id"
  for c in C02 C03 C04 C06 C08 C11 C12 C13 C18 C19; do
    o=$(cd /verif && VERIF_REPO=$tree VERIF_EVIDENCE_DIR=/tmp/verif-cross-evidence VERIF_REPLAYS=/tmp/verif-cross-replays/$id VERIF_BUDGET=$budget ./bin/verif check $c 2>&1)
    code=$(echo "$o" | grep -o "exit=[0-9]" | tail -1 | cut -d= -f2)
    sig=$(echo "$o" | grep "signature:" | head -1 | sed 's/.*signature: //' | cut -d/ -f2-4)
    line="$line\t${code:-?}${sig:+ ($sig)}"
  done
  echo -e "$line" >> $out
  git -C /repo worktree remove --force $tree; git -C /repo worktree prune
done
echo done
