package main

// go/ast based source instrumenter. It never re-prints the AST: it parses a
// file for positions only and splices text into the original bytes, so every
// comment and compiler directive stays where it was.
//
//   - `verifrt.Yield(<site>); ` in front of every statement of every block,
//     case-clause body and comm-clause body, and directly behind the `{` of
//     empty non-switch blocks (loop bodies, function bodies);
//   - optionally (World A) the selector expressions sync.Pool / sync.Mutex /
//     sync.RWMutex / sync.Once are redirected to package verifrt.
//
// The site table (id -> file:line function) is emitted as a generated file of
// package verifrt.

import (
	"bytes"
	"fmt"
	"go/ast"
	"go/build"
	"go/parser"
	"go/token"
	"os"
	"path/filepath"
	"sort"
	"strings"
)

type site struct {
	ID   int
	File string
	Line int
	Func string
	Pool bool // enclosing function mentions a pool (Get/Put) – "hot" candidate
}

type instrumenter struct {
	swapSync bool
	sites    []site
	// unsupported sync primitives seen (World A only)
	unsupported []string
}

type splice struct {
	off  int
	text string
	del  int // bytes to delete at off before inserting
}

const verifrtImport = "github.com/ja7ad/otp/internal/verifrt"

func (in *instrumenter) instrumentDir(dir, relName string) error {
	ents, err := os.ReadDir(dir)
	if err != nil {
		return err
	}
	ctx := build.Default
	ctx.GOOS, ctx.GOARCH = "linux", "amd64"
	ctx.BuildTags = []string{"verif"}
	for _, e := range ents {
		n := e.Name()
		if e.IsDir() || !strings.HasSuffix(n, ".go") || strings.HasSuffix(n, "_test.go") || strings.HasPrefix(n, "verif_") {
			continue
		}
		ok, err := ctx.MatchFile(dir, n)
		if err != nil {
			return err
		}
		if !ok {
			continue
		}
		if err := in.instrumentFile(filepath.Join(dir, n), filepath.Join(relName, n)); err != nil {
			return fmt.Errorf("%s: %w", n, err)
		}
	}
	return nil
}

func (in *instrumenter) instrumentFile(path, rel string) error {
	src, err := os.ReadFile(path)
	if err != nil {
		return err
	}
	fset := token.NewFileSet()
	f, err := parser.ParseFile(fset, path, src, parser.ParseComments)
	if err != nil {
		return err
	}
	tf := fset.File(f.Pos())
	off := func(p token.Pos) int { return tf.Offset(p) }
	var sp []splice

	// name of the sync import in this file ("" if not imported)
	syncName := ""
	for _, im := range f.Imports {
		if im.Path.Value == `"sync"` {
			syncName = "sync"
			if im.Name != nil {
				syncName = im.Name.Name
			}
		}
		if im.Path.Value == `"`+verifrtImport+`"` {
			return fmt.Errorf("file already imports verifrt")
		}
	}

	addSite := func(pos token.Pos, fn string, pool bool) int {
		id := len(in.sites)
		in.sites = append(in.sites, site{ID: id, File: rel, Line: fset.Position(pos).Line, Func: fn, Pool: pool})
		return id
	}

	var walkFunc func(name string, body *ast.BlockStmt)
	walkFunc = func(name string, body *ast.BlockStmt) {
		if body == nil {
			return
		}
		bodySrc := string(src[off(body.Pos()):off(body.End())])
		pool := strings.Contains(bodySrc, "Pool") || strings.Contains(bodySrc, ".Get()") || strings.Contains(bodySrc, ".Put(")
		var visit func(n ast.Node) bool
		doList := func(list []ast.Stmt) {
			for _, s := range list {
				switch s.(type) {
				case *ast.CaseClause, *ast.CommClause:
					continue
				}
				id := addSite(s.Pos(), name, pool)
				sp = append(sp, splice{off: off(s.Pos()), text: fmt.Sprintf("verifrt.Yield(%d); ", id)})
			}
		}
		visit = func(n ast.Node) bool {
			switch x := n.(type) {
			case *ast.FuncLit:
				walkFunc(name+".func", x.Body)
				return false
			case *ast.SwitchStmt:
				if x.Init != nil {
					ast.Inspect(x.Init, visit)
				}
				if x.Tag != nil {
					ast.Inspect(x.Tag, visit)
				}
				for _, c := range x.Body.List {
					ast.Inspect(c, visit)
				}
				return false
			case *ast.TypeSwitchStmt:
				if x.Init != nil {
					ast.Inspect(x.Init, visit)
				}
				ast.Inspect(x.Assign, visit)
				for _, c := range x.Body.List {
					ast.Inspect(c, visit)
				}
				return false
			case *ast.SelectStmt:
				for _, c := range x.Body.List {
					ast.Inspect(c, visit)
				}
				return false
			case *ast.CaseClause:
				doList(x.Body)
			case *ast.CommClause:
				doList(x.Body)
			case *ast.BlockStmt:
				if len(x.List) == 0 {
					id := addSite(x.Lbrace, name, pool)
					sp = append(sp, splice{off: off(x.Lbrace) + 1, text: fmt.Sprintf("verifrt.Yield(%d); ", id)})
				} else {
					doList(x.List)
				}
			}
			return true
		}
		ast.Inspect(body, visit)
	}

	for _, d := range f.Decls {
		switch x := d.(type) {
		case *ast.FuncDecl:
			name := x.Name.Name
			if x.Recv != nil && len(x.Recv.List) > 0 {
				name = recvName(x.Recv.List[0].Type) + "." + name
			}
			walkFunc(name, x.Body)
		case *ast.GenDecl:
			// function literals in package-level initialisers
			ast.Inspect(x, func(n ast.Node) bool {
				if fl, ok := n.(*ast.FuncLit); ok {
					walkFunc("pkginit.func", fl.Body)
					return false
				}
				return true
			})
		}
	}

	swapped := false
	if in.swapSync && syncName != "" {
		ast.Inspect(f, func(n ast.Node) bool {
			se, ok := n.(*ast.SelectorExpr)
			if !ok {
				return true
			}
			id, ok := se.X.(*ast.Ident)
			if !ok || id.Name != syncName || id.Obj != nil {
				return true
			}
			switch se.Sel.Name {
			case "Pool", "Mutex", "RWMutex", "Once":
				sp = append(sp, splice{off: off(id.Pos()), del: len(id.Name), text: "verifrt"})
				swapped = true
			case "Locker":
			default:
				in.unsupported = append(in.unsupported, fmt.Sprintf("%s:%d sync.%s", rel, fset.Position(se.Pos()).Line, se.Sel.Name))
			}
			return true
		})
	}
	if in.swapSync {
		// channels / go statements between tasks are not simulated either
		ast.Inspect(f, func(n ast.Node) bool {
			switch x := n.(type) {
			case *ast.GoStmt:
				in.unsupported = append(in.unsupported, fmt.Sprintf("%s:%d go statement", rel, fset.Position(x.Pos()).Line))
			}
			return true
		})
	}

	if len(sp) == 0 {
		return nil
	}
	// import right behind the package clause (same line keeps line numbers)
	sp = append(sp, splice{off: off(f.Name.End()), text: `; import verifrt "` + verifrtImport + `"`})

	sort.SliceStable(sp, func(i, j int) bool { return sp[i].off < sp[j].off })
	var out bytes.Buffer
	last := 0
	for _, s := range sp {
		out.Write(src[last:s.off])
		out.WriteString(s.text)
		last = s.off + s.del
	}
	out.Write(src[last:])
	if swapped {
		fmt.Fprintf(&out, "\nvar _ %s.Locker\n", syncName)
	}
	return os.WriteFile(path, out.Bytes(), 0o644)
}

func recvName(e ast.Expr) string {
	switch x := e.(type) {
	case *ast.StarExpr:
		return recvName(x.X)
	case *ast.Ident:
		return x.Name
	case *ast.IndexExpr:
		return recvName(x.X)
	}
	return "?"
}

// writeSiteTable emits the generated site table into the verifrt package dir.
func (in *instrumenter) writeSiteTable(dir string) error {
	var b bytes.Buffer
	b.WriteString("//go:build verif\n\npackage verifrt\n\n// generated by verif instr\n\nfunc init() {\n\tSites = []SiteInfo{\n")
	for _, s := range in.sites {
		fmt.Fprintf(&b, "\t\t{%d, %q, %d, %q, %v},\n", s.ID, s.File, s.Line, s.Func, s.Pool)
	}
	b.WriteString("\t}\n}\n")
	return os.WriteFile(filepath.Join(dir, "verif_sites.go"), b.Bytes(), 0o644)
}
