package main

// go/ast based source instrumenter. It never re-prints the AST: it parses a
// file for positions only and splices text into the original bytes, so every
// comment and compiler directive stays where it was.
//
//   - `verifrt.Yield(<site>); ` in front of every statement of every block,
//     case-clause body and comm-clause body, and directly behind the `{` of
//     empty non-switch blocks (loop bodies, function bodies);
//   - optionally (World A) the selector expressions sync.Pool / sync.Mutex /
//     sync.RWMutex / sync.Once are redirected to package verifrt.
//
// The site table (id -> file:line function) is emitted as a generated file of
// package verifrt.

import (
	"bytes"
	"fmt"
	"go/ast"
	"go/build"
	"go/importer"
	"go/parser"
	"go/token"
	"go/types"
	"os"
	"path/filepath"
	"sort"
	"strings"
)

type site struct {
	ID   int
	File string
	Line int
	Func string
	Pool bool // enclosing function mentions a pool (Get/Put) – "hot" candidate
}

type instrumenter struct {
	swapSync bool
	sites    []site
	// unsupported sync primitives seen (World A only)
	unsupported []string
	selects     int
	// `for ... range x` statements whose x is a channel, keyed by "file:offset of the for keyword"
	// (needs types: the package is type-checked from source once per build)
	chanRanges map[string]bool
	ranges     int
	// the package starts goroutines itself and this build runs every call under the scheduler (World B)
	libGoroutines bool
}

type splice struct {
	off  int
	text string
	del  int // bytes to delete at off before inserting
}

const verifrtImport = "github.com/ja7ad/otp/internal/verifrt"

func (in *instrumenter) instrumentDir(dir, relName string) error {
	ents, err := os.ReadDir(dir)
	if err != nil {
		return err
	}
	ctx := build.Default
	ctx.GOOS, ctx.GOARCH = "linux", "amd64"
	ctx.BuildTags = []string{"verif"}
	var names []string
	for _, e := range ents {
		n := e.Name()
		if e.IsDir() || !strings.HasSuffix(n, ".go") || strings.HasSuffix(n, "_test.go") || strings.HasPrefix(n, "verif_") {
			continue
		}
		ok, err := ctx.MatchFile(dir, n)
		if err != nil {
			return err
		}
		if !ok {
			continue
		}
		names = append(names, n)
	}
	if in.swapSync {
		in.findChanRanges(dir, names)
	}
	for _, n := range names {
		if err := in.instrumentFile(filepath.Join(dir, n), filepath.Join(relName, n)); err != nil {
			return fmt.Errorf("%s: %w", n, err)
		}
	}
	return nil
}

func (in *instrumenter) instrumentFile(path, rel string) error {
	src, err := os.ReadFile(path)
	if err != nil {
		return err
	}
	fset := token.NewFileSet()
	f, err := parser.ParseFile(fset, path, src, parser.ParseComments)
	if err != nil {
		return err
	}
	tf := fset.File(f.Pos())
	off := func(p token.Pos) int { return tf.Offset(p) }
	var sp []splice

	// name of the sync import in this file ("" if not imported)
	syncName := ""
	for _, im := range f.Imports {
		if im.Path.Value == `"sync"` {
			syncName = "sync"
			if im.Name != nil {
				syncName = im.Name.Name
			}
		}
		if im.Path.Value == `"`+verifrtImport+`"` {
			return fmt.Errorf("file already imports verifrt")
		}
	}

	addSite := func(pos token.Pos, fn string, pool bool) int {
		id := len(in.sites)
		in.sites = append(in.sites, site{ID: id, File: rel, Line: fset.Position(pos).Line, Func: fn, Pool: pool})
		return id
	}

	var walkFunc func(name string, body *ast.BlockStmt)
	walkFunc = func(name string, body *ast.BlockStmt) {
		if body == nil {
			return
		}
		bodySrc := string(src[off(body.Pos()):off(body.End())])
		pool := strings.Contains(bodySrc, "Pool") || strings.Contains(bodySrc, ".Get()") || strings.Contains(bodySrc, ".Put(")
		var visit func(n ast.Node) bool
		doList := func(list []ast.Stmt) {
			for _, s := range list {
				switch s.(type) {
				case *ast.CaseClause, *ast.CommClause:
					continue
				}
				id := addSite(s.Pos(), name, pool)
				sp = append(sp, splice{off: off(s.Pos()), text: fmt.Sprintf("verifrt.Yield(%d); ", id)})
			}
		}
		visit = func(n ast.Node) bool {
			switch x := n.(type) {
			case *ast.FuncLit:
				walkFunc(name+".func", x.Body)
				return false
			case *ast.SwitchStmt:
				if x.Init != nil {
					ast.Inspect(x.Init, visit)
				}
				if x.Tag != nil {
					ast.Inspect(x.Tag, visit)
				}
				for _, c := range x.Body.List {
					ast.Inspect(c, visit)
				}
				return false
			case *ast.TypeSwitchStmt:
				if x.Init != nil {
					ast.Inspect(x.Init, visit)
				}
				ast.Inspect(x.Assign, visit)
				for _, c := range x.Body.List {
					ast.Inspect(c, visit)
				}
				return false
			case *ast.SelectStmt:
				for _, c := range x.Body.List {
					ast.Inspect(c, visit)
				}
				return false
			case *ast.CaseClause:
				doList(x.Body)
			case *ast.CommClause:
				doList(x.Body)
			case *ast.BlockStmt:
				if len(x.List) == 0 {
					id := addSite(x.Lbrace, name, pool)
					sp = append(sp, splice{off: off(x.Lbrace) + 1, text: fmt.Sprintf("verifrt.Yield(%d); ", id)})
				} else {
					doList(x.List)
				}
			}
			return true
		}
		ast.Inspect(body, visit)
	}

	for _, d := range f.Decls {
		switch x := d.(type) {
		case *ast.FuncDecl:
			name := x.Name.Name
			if x.Recv != nil && len(x.Recv.List) > 0 {
				name = recvName(x.Recv.List[0].Type) + "." + name
			}
			walkFunc(name, x.Body)
		case *ast.GenDecl:
			// function literals in package-level initialisers
			ast.Inspect(x, func(n ast.Node) bool {
				if fl, ok := n.(*ast.FuncLit); ok {
					walkFunc("pkginit.func", fl.Body)
					return false
				}
				return true
			})
		}
	}

	swapped := false
	keepRuntime := false
	if in.swapSync && syncName != "" {
		ast.Inspect(f, func(n ast.Node) bool {
			se, ok := n.(*ast.SelectorExpr)
			if !ok {
				return true
			}
			id, ok := se.X.(*ast.Ident)
			if !ok || id.Name != syncName || id.Obj != nil {
				return true
			}
			switch se.Sel.Name {
			case "Pool", "Mutex", "RWMutex", "Once", "WaitGroup":
				sp = append(sp, splice{off: off(id.Pos()), del: len(id.Name), text: "verifrt"})
				swapped = true
			case "Locker", "Map":
				// never block a caller while another one is descheduled: left as they are
			default:
				in.unsupported = append(in.unsupported, fmt.Sprintf("%s:%d sync.%s", rel, fset.Position(se.Pos()).Line, se.Sel.Name))
			}
			return true
		})
	}
	if in.swapSync {
		// real timers cannot be waited for by polling tasks (no simulated clock in these worlds)
		ast.Inspect(f, func(n ast.Node) bool {
			se, ok := n.(*ast.SelectorExpr)
			if !ok {
				return true
			}
			if id, ok := se.X.(*ast.Ident); ok && id.Name == "time" && id.Obj == nil {
				switch se.Sel.Name {
				case "After", "AfterFunc", "NewTimer", "NewTicker", "Tick", "Sleep":
					in.unsupported = append(in.unsupported, fmt.Sprintf("%s:%d time.%s", rel, fset.Position(se.Pos()).Line, se.Sel.Name))
				}
			}
			return true
		})
		// channel operations become polling ones that pass the baton (verifrt/chan.go);
		// go statements and blocking selects between tasks are not simulated
		twoValue := map[ast.Expr]bool{}
		inComm := map[ast.Node]bool{}
		// A select becomes a loop of its own, so an unlabeled `continue` in one of its
		// cases must name the loop it meant: that loop gets a label (its own, or a new one).
		contFixed := map[*ast.SelectStmt]bool{}
		{
			var loops []ast.Node // enclosing loops, innermost last (nil marks a function boundary)
			loopLabel := map[ast.Node]string{}
			var walk func(n ast.Node)
			walk = func(n ast.Node) {
				ast.Inspect(n, func(m ast.Node) bool {
					if m == nil || m == n {
						return true
					}
					switch y := m.(type) {
					case *ast.LabeledStmt:
						switch y.Stmt.(type) {
						case *ast.ForStmt, *ast.RangeStmt:
							loopLabel[y.Stmt] = y.Label.Name
						}
						return true
					case *ast.FuncLit:
						loops = append(loops, nil)
						walk(y.Body)
						loops = loops[:len(loops)-1]
						return false
					case *ast.ForStmt, *ast.RangeStmt:
						loops = append(loops, m)
						walk(m)
						loops = loops[:len(loops)-1]
						return false
					case *ast.SelectStmt:
						if hasBareContinue(y.Body) && len(loops) > 0 && loops[len(loops)-1] != nil {
							lp := loops[len(loops)-1]
							lbl := loopLabel[lp]
							if lbl == "" {
								in.selects++
								lbl = fmt.Sprintf("verifLoop%d", in.selects)
								loopLabel[lp] = lbl
								sp = append(sp, splice{off: off(lp.Pos()), text: lbl + ": "})
							}
							var fix func(k ast.Node) bool
							fix = func(k ast.Node) bool {
								switch z := k.(type) {
								case *ast.ForStmt, *ast.RangeStmt, *ast.FuncLit:
									return false
								case *ast.BranchStmt:
									if z.Tok == token.CONTINUE && z.Label == nil {
										sp = append(sp, splice{off: off(z.End()), text: " " + lbl})
									}
								}
								return true
							}
							ast.Inspect(y.Body, fix)
							contFixed[y] = true
						}
						return true
					}
					return true
				})
			}
			walk(f)
		}
		ast.Inspect(f, func(n ast.Node) bool {
			switch x := n.(type) {
			case *ast.GoStmt:
				// `go f(a, b)` -> verifrt.Go2(f, a, b): function value and arguments are
				// still evaluated by the starting goroutine, the call runs as a new task
				n := len(x.Call.Args)
				if n > 8 || x.Call.Ellipsis.IsValid() {
					in.unsupported = append(in.unsupported, fmt.Sprintf("%s:%d go statement with more than 8 or variadic arguments", rel, fset.Position(x.Pos()).Line))
					return true
				}
				if n == 0 {
					sp = append(sp, splice{off: off(x.Go), del: 2, text: "verifrt.Go("})
					sp = append(sp, splice{off: off(x.Call.Lparen), del: 1, text: ""})
				} else {
					sp = append(sp, splice{off: off(x.Go), del: 2, text: fmt.Sprintf("verifrt.Go%d(", n)})
					sp = append(sp, splice{off: off(x.Call.Lparen), del: 1, text: ", "})
				}
				swapped = true
			case *ast.AssignStmt:
				if len(x.Lhs) == 2 && len(x.Rhs) == 1 {
					twoValue[x.Rhs[0]] = true
				}
			case *ast.ValueSpec:
				if len(x.Names) == 2 && len(x.Values) == 1 {
					twoValue[x.Values[0]] = true
				}
			case *ast.SelectStmt:
				// A select picks among ready cases at random (runtime fastrand): under the
				// simulator the choice must be the plan's. Rewritten into a loop that enables
				// one case per iteration (all others see a nil channel), starting at a
				// plan-chosen case and passing the baton after every full round:
				//   for c0, c1, s, t := <ch0>, <ch1>, verifrt.SelectStart(2), 0; ; t++ {
				//     select { case v := <-verifrt.Only(s+t, 2, 0, c0): ...  case verifrt.OnlySend(s+t, 2, 1, c1) <- x: ...
				//              default: verifrt.SelectSpin(t, 2); continue }
				//     break }
				// Channel operands (and sent values) are evaluated once, on entry, as the
				// language requires. A select with a default keeps it: it runs after one
				// full round without a ready case.
				var defClause *ast.CommClause
				type commInfo struct {
					send    bool
					ch, val ast.Expr
				}
				var comms []commInfo
				okRewrite := true
				for _, c := range x.Body.List {
					cc := c.(*ast.CommClause)
					if cc.Comm == nil {
						defClause = cc
						continue
					}
					switch cs := cc.Comm.(type) {
					case *ast.SendStmt:
						inComm[cs] = true
						comms = append(comms, commInfo{true, cs.Chan, cs.Value})
					case *ast.ExprStmt:
						inComm[cs.X] = true
						if u, ok := cs.X.(*ast.UnaryExpr); ok && u.Op == token.ARROW {
							comms = append(comms, commInfo{false, u.X, nil})
						} else {
							okRewrite = false
						}
					case *ast.AssignStmt:
						if len(cs.Rhs) == 1 {
							inComm[cs.Rhs[0]] = true
							if u, ok := cs.Rhs[0].(*ast.UnaryExpr); ok && u.Op == token.ARROW {
								comms = append(comms, commInfo{false, u.X, nil})
							} else {
								okRewrite = false
							}
						} else {
							okRewrite = false
						}
					}
				}
				n := len(comms)
				if n == 0 {
					return true // `select {}` blocks for ever (wedge detector)
				}
				line := fset.Position(x.Pos()).Line
				simple := func(e ast.Expr) bool {
					plain := true
					ast.Inspect(e, func(n ast.Node) bool {
						switch y := n.(type) {
						case *ast.FuncLit:
							plain = false
						case *ast.UnaryExpr:
							if y.Op == token.ARROW {
								plain = false
							}
						}
						return plain
					})
					return plain
				}
				for _, ci := range comms {
					if !simple(ci.ch) || (ci.val != nil && !simple(ci.val)) {
						okRewrite = false
					}
				}
				if !okRewrite || (hasBareContinue(x.Body) && !contFixed[x]) {
					in.unsupported = append(in.unsupported, fmt.Sprintf("%s:%d select the simulator cannot rewrite (unlabeled continue in a case, or a channel operand containing a receive or function literal)", rel, line))
					return true
				}
				in.selects++
				tag := fmt.Sprintf("%d", in.selects)
				var names, vals []string
				ci0 := 0
				for _, c := range x.Body.List {
					// a case that fired may have completed a rendezvous with a parked partner
					cc := c.(*ast.CommClause)
					if cc.Comm == nil {
						continue
					}
					fn := "WokeRecv"
					if comms[ci0].send {
						fn = "WokeSend"
					}
					sp = append(sp, splice{off: off(cc.Colon) + 1, text: fmt.Sprintf(" verifrt.%s(verifC%s_%d); ", fn, tag, ci0)})
					ci0++
				}
				for i, ci := range comms {
					cn := fmt.Sprintf("verifC%s_%d", tag, i)
					names = append(names, cn)
					vals = append(vals, string(src[off(ci.ch.Pos()):off(ci.ch.End())]))
					if ci.send {
						sp = append(sp, splice{off: off(ci.ch.Pos()), del: off(ci.ch.End()) - off(ci.ch.Pos()), text: fmt.Sprintf("verifrt.OnlySend(verifS%s+verifT%s, %d, %d, %s)", tag, tag, n, i, cn)})
						if _, lit := ci.val.(*ast.BasicLit); !lit {
							vn := fmt.Sprintf("verifV%s_%d", tag, i)
							names = append(names, vn)
							vals = append(vals, string(src[off(ci.val.Pos()):off(ci.val.End())]))
							sp = append(sp, splice{off: off(ci.val.Pos()), del: off(ci.val.End()) - off(ci.val.Pos()), text: vn})
						}
					} else {
						sp = append(sp, splice{off: off(ci.ch.Pos()), del: off(ci.ch.End()) - off(ci.ch.Pos()), text: fmt.Sprintf("verifrt.Only(verifS%s+verifT%s, %d, %d, %s)", tag, tag, n, i, cn)})
					}
				}
				dirs, chanArgs := "", ""
				for i, ci := range comms {
					if ci.send {
						dirs += "s"
					} else {
						dirs += "r"
					}
					chanArgs += fmt.Sprintf(", verifC%s_%d", tag, i)
				}
				names = append(names, "verifS"+tag, "verifT"+tag)
				vals = append(vals, fmt.Sprintf("verifrt.SelectStart(%d)", n), "0")
				sp = append(sp, splice{off: off(x.Select), text: fmt.Sprintf("for %s := %s; ; verifT%s++ { ", strings.Join(names, ", "), strings.Join(vals, ", "), tag)})
				if defClause != nil {
					sp = append(sp, splice{off: off(defClause.Colon) + 1, text: fmt.Sprintf(" if verifrt.SelectMore(verifT%s, %d, %q%s) { continue }; ", tag, n, dirs, chanArgs)})
				} else {
					sp = append(sp, splice{off: off(x.Body.Rbrace), text: fmt.Sprintf("default: verifrt.SelectSpin(verifT%s, %d, %q%s); continue; ", tag, n, dirs, chanArgs)})
				}
				tail := "; break }"
				if selectTerminates(x) {
					// the select was a terminating statement (every case returns or panics):
					// keep the function body well-formed after turning it into a loop
					tail += "; panic(\"verif: unreachable\")"
				}
				sp = append(sp, splice{off: off(x.Body.Rbrace) + 1, text: tail})
				swapped = true
			case *ast.RangeStmt:
				// for v := range ch { ... } -> for c := ch; ; { v, ok := verifrt.Recv2(c); if !ok { break }; ... }
				if !in.chanRanges[fmt.Sprintf("%s:%d", filepath.Base(path), off(x.For))] {
					return true
				}
				plainX := true
				ast.Inspect(x.X, func(n ast.Node) bool {
					switch y := n.(type) {
					case *ast.FuncLit:
						plainX = false
					case *ast.UnaryExpr:
						if y.Op == token.ARROW {
							plainX = false
						}
					}
					return plainX
				})
				if !plainX {
					in.unsupported = append(in.unsupported, fmt.Sprintf("%s:%d range over a channel expression containing a receive or function literal", rel, fset.Position(x.Pos()).Line))
					return true
				}
				in.ranges++
				tag := fmt.Sprintf("%d", in.ranges)
				chSrc := string(src[off(x.X.Pos()):off(x.X.End())])
				hdr := fmt.Sprintf("for verifR%s := %s; ; { ", tag, chSrc)
				switch {
				case x.Key == nil:
					hdr += fmt.Sprintf("if _, verifOk%s := verifrt.Recv2(verifR%s); !verifOk%s { break }; ", tag, tag, tag)
				case x.Tok == token.DEFINE:
					hdr += fmt.Sprintf("%s, verifOk%s := verifrt.Recv2(verifR%s); if !verifOk%s { break }; ", string(src[off(x.Key.Pos()):off(x.Key.End())]), tag, tag, tag)
				default:
					hdr += fmt.Sprintf("verifV%s, verifOk%s := verifrt.Recv2(verifR%s); if !verifOk%s { break }; %s = verifV%s; ", tag, tag, tag, tag, string(src[off(x.Key.Pos()):off(x.Key.End())]), tag)
				}
				sp = append(sp, splice{off: off(x.For), del: off(x.Body.Lbrace) + 1 - off(x.For), text: hdr})
				swapped = true
			case *ast.CallExpr:
				if id, ok := x.Fun.(*ast.Ident); ok && id.Name == "close" && id.Obj == nil && len(x.Args) == 1 {
					sp = append(sp, splice{off: off(id.Pos()), del: 5, text: "verifrt.Close"})
					swapped = true
				}
			case *ast.SendStmt:
				if inComm[x] {
					return true
				}
				sp = append(sp, splice{off: off(x.Pos()), text: "verifrt.Send("})
				sp = append(sp, splice{off: off(x.Arrow), del: 2, text: ", "})
				sp = append(sp, splice{off: off(x.End()), text: ")"})
				swapped = true
			case *ast.UnaryExpr:
				if x.Op != token.ARROW || inComm[x] {
					return true
				}
				fn := "verifrt.Recv("
				if twoValue[x] {
					fn = "verifrt.Recv2("
				}
				sp = append(sp, splice{off: off(x.Pos()), del: 2, text: fn})
				sp = append(sp, splice{off: off(x.End()), text: ")"})
				swapped = true
			}
			return true
		})
	}

	// runtime.SetFinalizer -> verifrt.SetFinalizer (every build: a finalizer runs on a
	// goroutine of the runtime and its instrumented statements must stay out of the scheduler)
	ast.Inspect(f, func(n ast.Node) bool {
		se, ok := n.(*ast.SelectorExpr)
		if !ok {
			return true
		}
		if id, ok := se.X.(*ast.Ident); ok && id.Name == "runtime" && id.Obj == nil && se.Sel.Name == "SetFinalizer" {
			sp = append(sp, splice{off: off(id.Pos()), del: len("runtime"), text: "verifrt"})
			keepRuntime = true
		}
		return true
	})
	if len(sp) == 0 {
		return nil
	}
	// import right behind the package clause (same line keeps line numbers)
	sp = append(sp, splice{off: off(f.Name.End()), text: `; import verifrt "` + verifrtImport + `"`})

	sort.SliceStable(sp, func(i, j int) bool { return sp[i].off < sp[j].off })
	var out bytes.Buffer
	last := 0
	for _, s := range sp {
		out.Write(src[last:s.off])
		out.WriteString(s.text)
		last = s.off + s.del
	}
	out.Write(src[last:])
	if swapped && syncName != "" {
		fmt.Fprintf(&out, "\nvar _ %s.Locker\n", syncName)
	}
	if keepRuntime {
		out.WriteString("\nvar _ = runtime.NumCPU // keeps the import used\n")
	}
	return os.WriteFile(path, out.Bytes(), 0o644)
}

// selectTerminates: is the select a terminating statement in the sense of the
// language specification (conservative: false when unsure)?
func selectTerminates(x *ast.SelectStmt) bool {
	if hasBareBreak(x.Body) {
		return false
	}
	for _, c := range x.Body.List {
		if !listTerminates(c.(*ast.CommClause).Body) {
			return false
		}
	}
	return true
}

func listTerminates(list []ast.Stmt) bool {
	if len(list) == 0 {
		return false
	}
	switch s := list[len(list)-1].(type) {
	case *ast.ReturnStmt:
		return true
	case *ast.BranchStmt:
		return s.Tok == token.GOTO
	case *ast.ExprStmt:
		if c, ok := s.X.(*ast.CallExpr); ok {
			if id, ok := c.Fun.(*ast.Ident); ok && id.Name == "panic" && id.Obj == nil {
				return true
			}
		}
	case *ast.BlockStmt:
		return listTerminates(s.List)
	case *ast.IfStmt:
		if s.Else == nil || !listTerminates(s.Body.List) {
			return false
		}
		switch e := s.Else.(type) {
		case *ast.BlockStmt:
			return listTerminates(e.List)
		case *ast.IfStmt:
			return listTerminates([]ast.Stmt{e})
		}
	case *ast.ForStmt:
		return s.Cond == nil && !hasBareBreak(s.Body)
	case *ast.LabeledStmt:
		return false
	}
	return false
}

// hasBareBreak: an unlabeled break that binds to the statement owning body, or any labeled break (conservative).
func hasBareBreak(body *ast.BlockStmt) bool {
	found := false
	var visit func(n ast.Node) bool
	visit = func(n ast.Node) bool {
		switch x := n.(type) {
		case *ast.ForStmt, *ast.RangeStmt, *ast.FuncLit, *ast.SwitchStmt, *ast.TypeSwitchStmt, *ast.SelectStmt:
			if n != ast.Node(body) {
				// unlabeled breaks inside bind there; labeled ones may still leave us
				ast.Inspect(n, func(m ast.Node) bool {
					if b, ok := m.(*ast.BranchStmt); ok && b.Tok == token.BREAK && b.Label != nil {
						found = true
					}
					return !found
				})
				return false
			}
		case *ast.BranchStmt:
			if x.Tok == token.BREAK {
				found = true
			}
		}
		return !found
	}
	ast.Inspect(body, visit)
	return found
}

// hasBareContinue: does the select body contain an unlabeled continue that binds
// outside the select (i.e. not inside a loop or function literal nested in a case)?
func hasBareContinue(body *ast.BlockStmt) bool {
	found := false
	var visit func(n ast.Node) bool
	visit = func(n ast.Node) bool {
		switch x := n.(type) {
		case *ast.ForStmt, *ast.RangeStmt, *ast.FuncLit:
			return false
		case *ast.BranchStmt:
			if x.Tok == token.CONTINUE && x.Label == nil {
				found = true
			}
		}
		return !found
	}
	ast.Inspect(body, visit)
	return found
}

func recvName(e ast.Expr) string {
	switch x := e.(type) {
	case *ast.StarExpr:
		return recvName(x.X)
	case *ast.Ident:
		return x.Name
	case *ast.IndexExpr:
		return recvName(x.X)
	}
	return "?"
}

// writeSiteTable emits the generated site table into the verifrt package dir.
func (in *instrumenter) writeSiteTable(dir string) error {
	var b bytes.Buffer
	b.WriteString("//go:build verif\n\npackage verifrt\n\n// generated by verif instr\n\nfunc init() {\n\tSites = []SiteInfo{\n")
	for _, s := range in.sites {
		fmt.Fprintf(&b, "\t\t{%d, %q, %d, %q, %v},\n", s.ID, s.File, s.Line, s.Func, s.Pool)
	}
	b.WriteString("\t}\n")
	if in.libGoroutines {
		b.WriteString("\tLibGoroutines = true\n")
	}
	b.WriteString("}\n")
	return os.WriteFile(filepath.Join(dir, "verif_sites.go"), b.Bytes(), 0o644)
}

// findChanRanges type-checks the package from source (standard library
// included; about a second) and records the range statements over channels.
// If the package does not type-check the set stays empty: such a range is then
// left alone and, should it ever block, reported by the wedge detector.
func (in *instrumenter) findChanRanges(dir string, names []string) {
	in.chanRanges = map[string]bool{}
	fset := token.NewFileSet()
	var files []*ast.File
	for _, n := range names {
		f, err := parser.ParseFile(fset, filepath.Join(dir, n), nil, parser.SkipObjectResolution)
		if err != nil {
			return
		}
		files = append(files, f)
	}
	anyRange := false
	for _, f := range files {
		ast.Inspect(f, func(n ast.Node) bool {
			if _, ok := n.(*ast.RangeStmt); ok {
				anyRange = true
			}
			return !anyRange
		})
	}
	if !anyRange {
		return
	}
	info := &types.Info{Types: map[ast.Expr]types.TypeAndValue{}}
	conf := types.Config{Importer: importer.ForCompiler(fset, "source", nil), Error: func(error) {}}
	_, _ = conf.Check("p", fset, files, info)
	for _, f := range files {
		tf := fset.File(f.Pos())
		ast.Inspect(f, func(n ast.Node) bool {
			rs, ok := n.(*ast.RangeStmt)
			if !ok {
				return true
			}
			if tv, ok := info.Types[rs.X]; ok && tv.Type != nil {
				if _, isChan := tv.Type.Underlying().(*types.Chan); isChan {
					in.chanRanges[fmt.Sprintf("%s:%d", filepath.Base(tf.Name()), tf.Offset(rs.For))] = true
				}
			}
			return true
		})
	}
}

// packageStartsGoroutines: does a non-test file of the package in dir contain a go statement?
func packageStartsGoroutines(dir string) bool {
	ents, err := os.ReadDir(dir)
	if err != nil {
		return false
	}
	for _, e := range ents {
		n := e.Name()
		if e.IsDir() || !strings.HasSuffix(n, ".go") || strings.HasSuffix(n, "_test.go") || strings.HasSuffix(n, "_wasm.go") {
			continue
		}
		fset := token.NewFileSet()
		f, err := parser.ParseFile(fset, filepath.Join(dir, n), nil, parser.SkipObjectResolution)
		if err != nil {
			continue
		}
		found := false
		ast.Inspect(f, func(n ast.Node) bool {
			if _, ok := n.(*ast.GoStmt); ok {
				found = true
			}
			return !found
		})
		if found {
			return true
		}
	}
	return false
}
