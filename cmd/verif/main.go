// verif: runner of the deterministic-simulation checks for ja7ad/otp.
//
//	verif check <property> [--tier quick|thorough]
//	verif replay <replay.json>
//	verif selftest <property>          determinism self-test (event logs must be identical)
//	verif prepare <world> <dir>        debugging: leave an instrumented scratch copy in <dir>
//
// Exit codes: 0 property held on everything explored; 1 confirmed violation
// (line "VIOLATION property=<id> replay=<path>"); 2 infrastructure trouble.
package main

import (
	"bufio"
	"bytes"
	"crypto/sha256"
	"encoding/binary"
	"encoding/hex"
	"encoding/json"
	"errors"
	"fmt"
	"hash/fnv"
	"io"
	"io/fs"
	"os"
	"os/exec"
	"os/signal"
	"path/filepath"
	"regexp"
	"runtime"
	"sort"
	"strconv"
	"strings"
	"sync"
	"syscall"
	"time"
)

// repoDir is /repo; VERIF_REPO exists for development only (sensitivity runs
// against a scratch worktree with a seeded change while /repo stays untouched).
var repoDir = func() string {
	if d := os.Getenv("VERIF_REPO"); d != "" {
		return d
	}
	return "/repo"
}()

const (
	goBin    = "go1.26.8"
	rapidReq = "require pgregory.net/rapid v1.3.0\n"
	rapidSum = "pgregory.net/rapid v1.3.0 h1:vBvO0VSqti75J1jjYqpgPNBLKMd1+gxa9fYo7vk/Exc=\npgregory.net/rapid v1.3.0/go.mod h1:dPlE4OBBxgXPqkP79flB6sJL1dx5azpI7HQ9MY9Z7uk=\n"
)

var verifDir = func() string {
	if d := os.Getenv("VERIF_DIR"); d != "" {
		return d
	}
	exe, err := os.Executable()
	if err == nil {
		d := filepath.Dir(filepath.Dir(exe))
		if _, err := os.Stat(filepath.Join(d, "harness")); err == nil {
			return d
		}
	}
	wd, _ := os.Getwd()
	return wd
}()

type propInfo struct {
	World string
	Rule  string
}

var props = map[string]propInfo{
	"C02": {"B", "one evaluation = one simulated run (plan of 1-4 TOTP tokens, 1-40 display/press/jump events); non-trivial = at least one judged GenerateTOTP reading; distinct = distinct tuples (digits, hash, period, at-boundary, last-second, nsec class, nil-param, step-0, huge-time) of judged readings"},
	"C03": {"B", "one evaluation = one simulated token/verifier run (1-4 HOTP accounts, 1-40 press/burst/crash/replay events over a lossy, duplicating, delaying, corrupting transport); non-trivial = at least one verdict judged against the window set; distinct = distinct tuples (digits, hash, skew, clamped signed counter distance, code intact, verdict, error, counter magnitude class, misconfiguration, nil-param)"},
	"C04": {"B", "one evaluation = one simulated token/verifier run (1-4 TOTP accounts with skewed, drifting, jumping clocks; 1-40 press/jump/replay events over the faulty transport); non-trivial = at least one verdict judged against the step-window set; distinct = distinct tuples (digits, hash, skew, clamped signed step distance, period class, verdict, error, misconfiguration, nil-param, verifier at first/last second of a step)"},
	"C06": {"B", "one evaluation = one simulated OCRA challenge/response run (1-4 accounts; challenges and answers lost, duplicated, delayed, reordered, corrupted; counter/clock/PIN/session/suite divergence; inadmissible verifier input); non-trivial = at least one verdict judged; distinct = distinct tuples (suite mode, hash, digits, selected fields, views agree, verdict, error, generation fails, length matches, misconfiguration)"},
	"C13": {"B", "one evaluation = one simulated run mixing HOTP, TOTP and OCRA accounts with every failure cause injected; non-trivial = at least one verdict/err pair judged; distinct = union of the per-kind state tuples of C03, C04 and C06"},
	"C08": {"A", "one evaluation = one simulated run (1-16 tasks calling RandomSecret, interleaved at statement and reader-chunk granularity over a plan-chosen byte stream and chunking); non-trivial = at least one task switch or short read inside a RandomSecret call; distinct = distinct hashes of the hand-over sequence (task, site) combined with the chunk pattern"},
	"C11": {"A", "one evaluation = one simulated run (1-64 tasks x 1-40 library calls, baton scheduler switching at statement granularity, simulated sync.Pool with poison/steal/miss/drain/adversary); non-trivial = at least one task switch or pool fault fired inside a library call; distinct = distinct hashes of the sequence of (from-task, to-task, site) hand-overs"},
	"C12": {"A", "one evaluation = one simulated run as for C11 with canary arenas, shared parameter structs and scribbled results; non-trivial = at least one task switch or pool fault fired inside a library call; distinct = distinct hashes of the hand-over sequence"},
	"C18": {"C", "one evaluation = one synctest bubble running the real api.Server over simulated connections (1-8 clients, 1-60 connections, 20-150 transport/request events); non-trivial = at least one well-formed request answered and compared with the request model; distinct = distinct tuples (endpoint, method, request class, expectation class, status, connection reused, role, number of body fields, model verdict) of answered requests"},
	"C19": {"C", "one evaluation = one synctest bubble as for C18 with adversarial requests and transport faults; non-trivial = at least one adversarial request or transport fault followed by a judged probe; distinct = distinct tuples (endpoint, method, attack kind, expectation class, status, connection reused, role main/probe-same-conn/probe-fresh-conn/probe-final, number of body fields, model verdict) of answered requests"},
}

// alsoWorld: a second world in which a slice of the workers decides a further
// clause of the property (C13: the verdict clause for validations made while
// other callers are inside the library; C02 C03 C04 C06: the answer to a call
// does not depend on other callers).
var alsoWorld = map[string]string{"C13": "A", "C02": "A", "C03": "A", "C04": "A", "C06": "A"}

type worldInfo struct {
	Pkg     string // package dir inside the scratch repo
	Src     string // harness source dir in /verif/harness
	App     bool   // lives in the internal/app module (workspace build)
	Swap    bool   // swap sync primitives
	Race    bool   // additionally build & run a race variant
	OneCPU  bool   // run the test binary with -test.cpu 1
	Workers int
}

var worlds = map[string]worldInfo{
	"A": {Pkg: "internal/verifw/worlda", Src: "worlda", Swap: true, Race: true, OneCPU: true},
	"B": {Pkg: "internal/verifw/worldb", Src: "worldb"},
	"C": {Pkg: "internal/app/verifw/worldc", Src: "worldc", App: true, OneCPU: true},
}

var components = map[string]any{
	"real":      []string{"package github.com/ja7ad/otp (all non-wasm files, statement-instrumented copy)", "encoding/base32, crypto/hmac, crypto/sha*, crypto/subtle, net/url, encoding/json (standard library)"},
	"simulated": []string{},
	"not_run":   []string{"internal/app/cmd/main.go (flag parsing, signals, ListenAndServe)", "wasm/main.go and the js package", "swagger docs handler"},
}

func main() {
	if len(os.Args) < 2 {
		usage()
	}
	switch os.Args[1] {
	case "check":
		os.Exit(cmdCheck(os.Args[2:]))
	case "replay":
		os.Exit(cmdReplay(os.Args[2:]))
	case "selftest":
		os.Exit(cmdSelftest(os.Args[2:]))
	case "prepare":
		if len(os.Args) < 4 {
			usage()
		}
		sc, err := prepare(os.Args[2], os.Args[3])
		if err != nil {
			fmt.Fprintln(os.Stderr, "prepare:", err)
			os.Exit(2)
		}
		fmt.Println(sc.dir)
	default:
		usage()
	}
}

func usage() {
	fmt.Fprintln(os.Stderr, "usage: verif check <property> [--tier quick|thorough] | verif replay <file> | verif selftest <property>")
	os.Exit(2)
}

// ---------------------------------------------------------------------------
// scratch copy, instrumentation, build

type scratch struct {
	world string
	dir   string // root of scratch area
	repo  string // copy of /repo
	bins  map[string]string
	sites int
	keep  bool
}

var cleanupMu sync.Mutex
var cleanupDirs []string

func registerCleanup(d string) {
	cleanupMu.Lock()
	cleanupDirs = append(cleanupDirs, d)
	cleanupMu.Unlock()
}

func cleanupAll() {
	cleanupMu.Lock()
	for _, d := range cleanupDirs {
		_ = os.RemoveAll(d)
	}
	cleanupDirs = nil
	cleanupMu.Unlock()
}

func init() {
	ch := make(chan os.Signal, 1)
	signal.Notify(ch, syscall.SIGINT, syscall.SIGTERM)
	go func() {
		<-ch
		cleanupAll()
		os.Exit(2)
	}()
}

func copyTree(src, dst string, skip func(rel string, d fs.DirEntry) bool) error {
	return filepath.WalkDir(src, func(p string, d fs.DirEntry, err error) error {
		if err != nil {
			return err
		}
		rel, _ := filepath.Rel(src, p)
		if rel != "." && skip != nil && skip(rel, d) {
			if d.IsDir() {
				return filepath.SkipDir
			}
			return nil
		}
		t := filepath.Join(dst, rel)
		if d.IsDir() {
			return os.MkdirAll(t, 0o755)
		}
		if !d.Type().IsRegular() {
			return nil
		}
		b, err := os.ReadFile(p)
		if err != nil {
			return err
		}
		return os.WriteFile(t, b, 0o644)
	})
}

func goEnv(app bool) []string {
	env := os.Environ()
	out := env[:0:0]
	for _, e := range env {
		k := strings.SplitN(e, "=", 2)[0]
		switch k {
		case "GOFLAGS", "GOWORK", "GOTOOLCHAIN", "GOPROXY", "GOSUMDB", "GOMAXPROCS":
			continue
		}
		out = append(out, e)
	}
	out = append(out, "GOTOOLCHAIN=local", "GOPROXY=off", "GOSUMDB=off")
	if app {
		out = append(out, "GOFLAGS=")
	} else {
		out = append(out, "GOWORK=off", "GOFLAGS=-mod=mod")
	}
	return out
}

func prepare(world, keepDir string) (*scratch, error) {
	wi, ok := worlds[world]
	if !ok {
		return nil, fmt.Errorf("unknown world %q", world)
	}
	sc := &scratch{bins: map[string]string{}, world: world}
	if keepDir != "" {
		sc.dir = keepDir
		sc.keep = true
		if err := os.MkdirAll(keepDir, 0o755); err != nil {
			return nil, err
		}
	} else {
		d, err := os.MkdirTemp("", "verif-scratch-")
		if err != nil {
			return nil, err
		}
		sc.dir = d
		registerCleanup(d)
	}
	sc.repo = filepath.Join(sc.dir, "repo")
	err := copyTree(repoDir, sc.repo, func(rel string, d fs.DirEntry) bool {
		switch rel {
		case ".git", "otp-js", "_example", "docs", ".github", "wasm":
			return true
		}
		return strings.HasPrefix(filepath.Base(rel), "verif_")
	})
	if err != nil {
		return nil, fmt.Errorf("copy /repo: %w", err)
	}
	// World B calls the library from one goroutine and leaves sync primitives
	// alone - unless the library starts goroutines of its own: then every call
	// is run under the baton scheduler (one caller task plus what it starts), which
	// needs the same rewriting as World A.
	swap := wi.Swap
	libGo := false
	if (world == "A" || world == "B") && packageStartsGoroutines(sc.repo) {
		swap, libGo = true, true
	}
	in := &instrumenter{swapSync: swap, libGoroutines: libGo}
	if err := in.instrumentDir(sc.repo, ""); err != nil {
		return nil, fmt.Errorf("instrument package otp: %w", err)
	}
	apiDir := filepath.Join(sc.repo, "internal/app/api")
	if _, err := os.Stat(apiDir); err == nil {
		ain := &instrumenter{swapSync: false, sites: in.sites}
		if err := ain.instrumentDir(apiDir, "internal/app/api"); err != nil {
			return nil, fmt.Errorf("instrument package api: %w", err)
		}
		in.sites = ain.sites
	}
	if swap && len(in.unsupported) > 0 {
		return nil, fmt.Errorf("package otp uses concurrency primitives the simulator does not model: %s", strings.Join(in.unsupported, "; "))
	}
	sc.sites = len(in.sites)
	rtDst := filepath.Join(sc.repo, "internal/verifrt")
	if err := copyTree(filepath.Join(verifDir, "rt/verifrt"), rtDst, nil); err != nil {
		return nil, err
	}
	if err := in.writeSiteTable(rtDst); err != nil {
		return nil, err
	}
	if err := copyTree(filepath.Join(verifDir, "harness/verifh"), filepath.Join(sc.repo, "internal/verifh"), nil); err != nil {
		return nil, err
	}
	if err := copyTree(filepath.Join(verifDir, "harness", wi.Src), filepath.Join(sc.repo, wi.Pkg), nil); err != nil {
		return nil, err
	}
	// generated accessor for the unexported fasthttp server
	if wi.App {
		acc := "//go:build verif\n\npackage api\n\nimport (\n\t\"net\"\n\n\t\"github.com/valyala/fasthttp\"\n)\n\n" +
			"// generated by verif: serve exactly what NewServer() configured on a simulated listener\n" +
			"func (s *Server) VerifServe(ln net.Listener) error { return s.srv.Serve(ln) }\n\n" +
			"func (s *Server) VerifShutdown() error { return s.srv.Shutdown() }\n\n" +
			verifStopSrc(apiDir) +
			"func (s *Server) VerifFast() *fasthttp.Server { return s.srv }\n"
		if err := os.WriteFile(filepath.Join(apiDir, "verif_export.go"), []byte(acc), 0o644); err != nil {
			return nil, err
		}
	}
	// module wiring for rapid (module is in the local cache; no network)
	appendFile := func(p, s string) error {
		f, err := os.OpenFile(p, os.O_APPEND|os.O_CREATE|os.O_WRONLY, 0o644)
		if err != nil {
			return err
		}
		defer f.Close()
		_, err = f.WriteString("\n" + s)
		return err
	}
	if err := appendFile(filepath.Join(sc.repo, "go.mod"), rapidReq); err != nil {
		return nil, err
	}
	if err := appendFile(filepath.Join(sc.repo, "go.sum"), rapidSum); err != nil {
		return nil, err
	}
	if wi.App {
		if err := appendFile(filepath.Join(sc.repo, "internal/app/go.mod"), rapidReq); err != nil {
			return nil, err
		}
		if err := appendFile(filepath.Join(sc.repo, "internal/app/go.sum"), rapidSum); err != nil {
			return nil, err
		}
	}
	binDir := filepath.Join(sc.dir, "bin")
	_ = os.MkdirAll(binDir, 0o755)

	type job struct {
		name string
		args []string
		dir  string
		env  []string
	}
	var jobs []job
	pkgRel := "./" + wi.Pkg
	dir := sc.repo
	if wi.App {
		pkgRel = "./" + strings.TrimPrefix(wi.Pkg, "internal/app/")
		dir = filepath.Join(sc.repo, "internal/app")
	}
	plain := filepath.Join(binDir, "world.test")
	jobs = append(jobs, job{"build", []string{"test", "-c", "-tags", "verif", "-o", plain, pkgRel}, dir, goEnv(wi.App)})
	sc.bins["plain"] = plain
	if wi.Race {
		rb := filepath.Join(binDir, "world.race.test")
		jobs = append(jobs, job{"build-race", []string{"test", "-c", "-race", "-tags", "verif", "-o", rb, pkgRel}, dir, goEnv(wi.App)})
		sc.bins["race"] = rb
	}
	// sanity gate: the repository's own tests must pass on the instrumented copy
	jobs = append(jobs, job{"gate", []string{"test", "-tags", "verif", "-count=1", "-vet=off", "."}, sc.repo, goEnv(false)})
	errs := make([]error, len(jobs))
	var wg sync.WaitGroup
	for i, j := range jobs {
		wg.Add(1)
		go func(i int, j job) {
			defer wg.Done()
			cmd := exec.Command(goBin, j.args...)
			cmd.Dir = j.dir
			cmd.Env = j.env
			out, err := cmd.CombinedOutput()
			if err != nil {
				errs[i] = fmt.Errorf("%s failed: %v\n%s", j.name, err, tail(string(out), 60))
			}
		}(i, j)
	}
	wg.Wait()
	for _, e := range errs {
		if e != nil {
			return sc, e
		}
	}
	return sc, nil
}

func (sc *scratch) cleanup() {
	if sc != nil && !sc.keep {
		_ = os.RemoveAll(sc.dir)
	}
}

func tail(s string, n int) string {
	lines := strings.Split(strings.TrimRight(s, "\n"), "\n")
	if len(lines) > n {
		lines = lines[len(lines)-n:]
	}
	return strings.Join(lines, "\n")
}

// ---------------------------------------------------------------------------
// known findings

type knownFinding struct {
	Property, Signature, Text string
}

func loadKnown() []knownFinding {
	var out []knownFinding
	f, err := os.Open(filepath.Join(verifDir, "known_findings.txt"))
	if err != nil {
		return nil
	}
	defer f.Close()
	sc := bufio.NewScanner(f)
	for sc.Scan() {
		l := strings.TrimSpace(sc.Text())
		if !strings.HasPrefix(l, "finding:") {
			continue // comments and "fixed:" entries suppress nothing
		}
		l = strings.TrimSpace(strings.TrimPrefix(l, "finding:"))
		var kf knownFinding
		parts := strings.SplitN(l, " :: ", 2)
		if len(parts) == 2 {
			kf.Text = parts[1]
		}
		for _, f := range strings.Fields(parts[0]) {
			if v, ok := strings.CutPrefix(f, "property="); ok {
				kf.Property = v
			}
			if v, ok := strings.CutPrefix(f, "signature="); ok {
				kf.Signature = v
			}
		}
		if kf.Property != "" && kf.Signature != "" {
			out = append(out, kf)
		}
	}
	return out
}

// ---------------------------------------------------------------------------
// worker protocol (see harness/verifh)

type violation struct {
	Property string `json:"property"`
	Clause   string `json:"clause"`
	Op       string `json:"op"`
	Witness  string `json:"witness"`
	Detail   string `json:"detail"`
}

type failFile struct {
	Property  string          `json:"property"`
	World     string          `json:"world"`
	Seed      uint64          `json:"seed"`
	Signature string          `json:"signature"`
	Violation violation       `json:"violation"`
	Plan      json.RawMessage `json:"plan"`
	Crash     bool            `json:"crash,omitempty"`

	WorkerSeed uint64 `json:"worker_seed,omitempty"`
	Checks     string `json:"checks,omitempty"`
	RunIndex   uint64 `json:"run_index,omitempty"`
	History    bool   `json:"history,omitempty"`
	Variant    string `json:"variant,omitempty"`
}

type workerStats struct {
	Property    string            `json:"property"`
	World       string            `json:"world"`
	Runs        uint64            `json:"runs"`
	NonTrivial  uint64            `json:"nontrivial_runs"`
	Distinct    uint64            `json:"distinct_hashes"`
	Counters    map[string]uint64 `json:"counters"`
	SimTimeNs   float64           `json:"sim_time_ns"`
	Samples     []json.RawMessage `json:"samples"`
	WallS       float64           `json:"wall_s"`
	Seeds       []uint64          `json:"seeds"`
	Failed      bool              `json:"failed"`
	HarnessErr  string            `json:"harness_error"`
	ReplaySig   string            `json:"replay_signature"`
	ReplayFound bool              `json:"replay_found"`
}

func h64(parts ...any) uint64 {
	h := fnv.New64a()
	for _, p := range parts {
		fmt.Fprint(h, p)
		h.Write([]byte{0})
	}
	return h.Sum64()
}

type workerResult struct {
	idx      int
	variant  string
	stats    *workerStats
	fail     *failFile
	failPath string
	exitErr  error
	timedOut bool
	logPath  string
	hashes   []uint64
	sc       *scratch
}

// runWorkerIsolated: one worker process per simulated run (World C fallback for a
// tree whose goroutines or channels live longer than one synctest bubble: the
// second bubble of a process would die of "... from outside bubble"). State that
// a process accumulates over many runs is not explored in this mode.
func runWorkerIsolated(sc *scratch, prop, tier, variant string, idx int, seed uint64, budget float64, shrink string) workerResult {
	agg := workerResult{idx: idx, variant: variant, stats: &workerStats{Counters: map[string]uint64{}}}
	deadline := time.Now().Add(time.Duration(budget * float64(time.Second)))
	hs := map[uint64]struct{}{}
	for it := uint64(0); time.Now().Before(deadline); it++ {
		r := runWorker(sc, prop, tier, variant, idx, h64("isolated", seed, it)|1, 0.001, shrink, []string{"VERIF_MAX_RUNS=1", "VERIF_CHECKS=1", "VERIF_ISOLATED=1"})
		agg.failPath, agg.logPath = r.failPath, r.logPath
		if r.stats != nil {
			agg.stats.Runs += r.stats.Runs
			agg.stats.NonTrivial += r.stats.NonTrivial
			agg.stats.SimTimeNs += r.stats.SimTimeNs
			for k, v := range r.stats.Counters {
				agg.stats.Counters[k] += v
			}
			if len(agg.stats.Samples) < 2 {
				agg.stats.Samples = append(agg.stats.Samples, r.stats.Samples...)
			}
			if len(agg.stats.Seeds) < 8 {
				agg.stats.Seeds = append(agg.stats.Seeds, r.stats.Seeds...)
			}
			if r.stats.HarnessErr != "" && agg.stats.HarnessErr == "" {
				agg.stats.HarnessErr = r.stats.HarnessErr
			}
		}
		for _, h := range r.hashes {
			hs[h] = struct{}{}
		}
		if r.fail != nil {
			agg.fail = r.fail
			break
		}
		if r.timedOut || (r.stats == nil && r.exitErr != nil) {
			agg.timedOut, agg.exitErr = r.timedOut, r.exitErr
			agg.stats = nil
			break
		}
	}
	for h := range hs {
		agg.hashes = append(agg.hashes, h)
	}
	return agg
}

func runWorker(sc *scratch, prop, tier, variant string, idx int, seed uint64, budget float64, shrink string, extraEnv []string) workerResult {
	res := workerResult{idx: idx, variant: variant}
	bin := sc.bins[variant]
	out := filepath.Join(sc.dir, fmt.Sprintf("out-%s-%d.json", variant, idx))
	failp := filepath.Join(sc.dir, fmt.Sprintf("fail-%s-%d.json", variant, idx))
	logp := filepath.Join(sc.dir, fmt.Sprintf("log-%s-%d.txt", variant, idx))
	res.failPath, res.logPath = failp, logp
	shr, _ := time.ParseDuration(shrink)
	hard := time.Duration(budget*float64(time.Second)) + shr + 180*time.Second
	args := []string{"-test.run", "^TestSim$", "-test.count=1", "-test.timeout", (hard - 30*time.Second).String()}
	if worlds[sc.world].OneCPU {
		args = append(args, "-test.cpu", "1")
	}
	cmd := exec.Command(bin, args...)
	cmd.Dir = sc.dir
	env := append(os.Environ(),
		"VERIF_PROP="+prop, "VERIF_TIER="+tier,
		"VERIF_WORKER_SEED="+strconv.FormatUint(seed, 10),
		"VERIF_BUDGET_S="+strconv.FormatFloat(budget, 'f', 1, 64),
		"VERIF_OUT="+out, "VERIF_FAIL="+failp, "VERIF_SHRINK="+shrink,
		"VERIF_VARIANT="+variant,
		"GORACE=halt_on_error=0 log_path="+filepath.Join(sc.dir, fmt.Sprintf("race-%s-%d", variant, idx)),
	)
	env = append(env, extraEnv...)
	cmd.Env = env
	lf, _ := os.Create(logp)
	cmd.Stdout, cmd.Stderr = lf, lf
	cmd.SysProcAttr = &syscall.SysProcAttr{Setpgid: true}
	if err := cmd.Start(); err != nil {
		res.exitErr = err
		return res
	}
	done := make(chan error, 1)
	go func() { done <- cmd.Wait() }()
	select {
	case err := <-done:
		res.exitErr = err
	case <-time.After(hard):
		_ = syscall.Kill(-cmd.Process.Pid, syscall.SIGKILL)
		<-done
		res.timedOut = true
	}
	lf.Close()
	if b, err := os.ReadFile(out); err == nil {
		var ws workerStats
		if json.Unmarshal(b, &ws) == nil {
			res.stats = &ws
		}
	}
	if b, err := os.ReadFile(out + ".hashes"); err == nil {
		for i := 0; i+8 <= len(b); i += 8 {
			res.hashes = append(res.hashes, binary.LittleEndian.Uint64(b[i:]))
		}
	}
	if b, err := os.ReadFile(failp); err == nil {
		var ff failFile
		if json.Unmarshal(b, &ff) == nil {
			res.fail = &ff
		}
	}
	// the process died while serving an event: the harness left a witness behind
	if res.fail == nil && res.stats == nil && !res.timedOut && !unsimulable(readTail(logp, 1<<30)) {
		if b, err := os.ReadFile(failp + ".pending"); err == nil {
			var ff failFile
			if json.Unmarshal(b, &ff) == nil && ff.Crash {
				res.fail = &ff
			}
		}
	}
	return res
}

// replayOnce runs the replay file in a fresh process and returns the signature found ("" = none).
func replayOnce(sc *scratch, prop, variant, path string, extraEnv []string) (string, string, error) {
	bin := sc.bins[variant]
	out := filepath.Join(sc.dir, fmt.Sprintf("replay-out-%d.json", time.Now().UnixNano()))
	args := []string{"-test.run", "^TestSim$", "-test.count=1", "-test.timeout", "10m", "-test.v"}
	if worlds[sc.world].OneCPU {
		args = append(args, "-test.cpu", "1")
	}
	cmd := exec.Command(bin, args...)
	cmd.Dir = sc.dir
	cmd.Env = append(append(os.Environ(), "VERIF_PROP="+prop, "VERIF_REPLAY="+path, "VERIF_OUT="+out, "VERIF_VARIANT="+variant,
		"GORACE=halt_on_error=0 log_path="+filepath.Join(sc.dir, "race-replay")), extraEnv...)
	b, err := cmd.CombinedOutput()
	var ws workerStats
	if sb, e := os.ReadFile(out); e == nil {
		_ = json.Unmarshal(sb, &ws)
	} else {
		txt := string(b)
		if err != nil && (strings.Contains(txt, "panic:") || strings.Contains(txt, "fatal error:") || strings.Contains(txt, "SIGSEGV") || strings.Contains(txt, "VERIF-HANG")) && !unsimulable(txt) {
			return "PROCESS-CRASH", txt, nil
		}
		return "", txt, fmt.Errorf("replay produced no result file: %v\n%s", err, tail(txt, 40))
	}
	if ws.HarnessErr != "" {
		return "", string(b), errors.New(ws.HarnessErr)
	}
	if ws.ReplayFound {
		return ws.ReplaySig, string(b), nil
	}
	return "", string(b), nil
}

// verifStopSrc generates VerifStop: the operator's documented way to stop the
// service (Server.Stop), so that whatever a changed tree starts in NewServer and
// stops in Stop is stopped too. The simulated server is served on a simulated
// listener without Start(), so the cancel function Start() would have stored is
// supplied here when the field exists and is still nil.
func verifStopSrc(apiDir string) string {
	b, _ := os.ReadFile(filepath.Join(apiDir, "server.go"))
	src := string(b)
	hasStop := strings.Contains(src, "func (s *Server) Stop()") || strings.Contains(src, ") Stop() {")
	if !hasStop {
		return "func (s *Server) VerifStop() { _ = s.srv.Shutdown() }\n\n"
	}
	pre := ""
	if regexp.MustCompile(`(?m)^\s*cancelFunc\s+context\.CancelFunc`).MatchString(src) {
		pre = "\tif s.cancelFunc == nil {\n\t\ts.cancelFunc = func() {}\n\t}\n"
	}
	return "func (s *Server) VerifStop() {\n" + pre + "\ts.Stop()\n}\n\n"
}

// unsimulable: the process died of a limit of the simulation, not of the code
// under test - a bubble that cannot become quiescent (VERIF-UNSUPPORTED, see the
// World C watchdog) or a channel of one synctest bubble used from another one
// (a goroutine or channel of the code under test that lives longer than one
// simulated run). Never a witness.
func unsimulable(txt string) bool {
	if strings.Contains(txt, "VERIF-UNSUPPORTED") || strings.Contains(txt, "from outside bubble") || strings.Contains(txt, "synctest channel") {
		return true
	}
	// the simulator's own alarms (a deadlock it cannot attribute, a construct it does not
	// model, its limits) and the test binary's watchdog are infrastructure trouble
	for _, m := range []string{"verifrt: deadlock", "verifrt: baton holder", "verifrt: harness defect", "verifrt: the code under test started a goroutine outside",
		"verifrt: more than 4096", "verifrt: too many", "verifrt: lock held while no other task", "verifrt: receive from nil channel", "verifrt: send on nil channel",
		"panic: test timed out", "all goroutines are asleep"} {
		if strings.Contains(txt, m) {
			return true
		}
	}
	return false
}

// replayHistory regenerates the whole sequence of plans the worker executed (same
// worker seed, same number of plans per rapid check) in a fresh process and
// returns the signature of the first violation met.
func replayHistory(sc *scratch, prop, variant string, ff *failFile) (string, string, error) {
	bin := sc.bins[variant]
	out := filepath.Join(sc.dir, fmt.Sprintf("hist-out-%d.json", time.Now().UnixNano()))
	args := []string{"-test.run", "^TestSim$", "-test.count=1", "-test.timeout", "60m"}
	if worlds[sc.world].OneCPU {
		args = append(args, "-test.cpu", "1")
	}
	cmd := exec.Command(bin, args...)
	cmd.Dir = sc.dir
	cmd.Env = append(os.Environ(), "VERIF_PROP="+prop, "VERIF_HISTORY=1", "VERIF_OUT="+out, "VERIF_VARIANT="+variant,
		"VERIF_WORKER_SEED="+strconv.FormatUint(ff.WorkerSeed, 10), "VERIF_CHECKS="+ff.Checks,
		"VERIF_MAX_RUNS="+strconv.FormatUint(ff.RunIndex+1000, 10), "VERIF_BUDGET_S=3000",
		"VERIF_FAIL="+filepath.Join(sc.dir, "hist-fail.json"),
		"GORACE=halt_on_error=0 log_path="+filepath.Join(sc.dir, "race-hist"))
	b, err := cmd.CombinedOutput()
	var ws workerStats
	if sb, e := os.ReadFile(out); e == nil {
		_ = json.Unmarshal(sb, &ws)
	} else {
		txt := string(b)
		if err != nil && (strings.Contains(txt, "panic:") || strings.Contains(txt, "fatal error:") || strings.Contains(txt, "SIGSEGV") || strings.Contains(txt, "VERIF-HANG")) && !unsimulable(txt) {
			return "PROCESS-CRASH", txt, nil
		}
		return "", txt, fmt.Errorf("history replay produced no result file: %v\n%s", err, tail(txt, 30))
	}
	if ws.ReplayFound {
		return ws.ReplaySig, string(b), nil
	}
	return "", string(b), nil
}

// ---------------------------------------------------------------------------
// check

type tierCfg struct {
	Workers int
	Budget  float64
	Shrink  string
}

func tierFor(prop, tier string) tierCfg {
	n := runtime.NumCPU()
	if n > 16 {
		n = 16
	}
	if n < 2 {
		n = 2
	}
	c := tierCfg{Workers: n, Budget: 25, Shrink: "15s"}
	if tier == "thorough" {
		c.Budget, c.Shrink = 600, "90s"
	}
	if v := os.Getenv("VERIF_BUDGET"); v != "" {
		if f, err := strconv.ParseFloat(v, 64); err == nil {
			c.Budget = f
		}
	}
	if v := os.Getenv("VERIF_WORKERS"); v != "" {
		if i, err := strconv.Atoi(v); err == nil && i > 0 {
			c.Workers = i
		}
	}
	return c
}

func cmdCheck(args []string) int {
	if len(args) < 1 {
		usage()
	}
	prop := args[0]
	tier := os.Getenv("VERIF_TIER")
	for i := 1; i < len(args); i++ {
		if args[i] == "--tier" && i+1 < len(args) {
			tier = args[i+1]
			i++
		}
	}
	if tier != "thorough" {
		tier = "quick"
	}
	pi, ok := props[prop]
	if !ok {
		fmt.Fprintf(os.Stderr, "unknown or not-applicable property %q\n", prop)
		return 2
	}
	seed := uint64(1)
	if v := os.Getenv("VERIF_SEED"); v != "" {
		if s, err := strconv.ParseUint(v, 10, 64); err == nil {
			seed = s
		} else if s, err := strconv.ParseInt(v, 10, 64); err == nil {
			seed = uint64(s)
		}
	}
	start := time.Now()
	fmt.Printf("verif: property=%s world=%s tier=%s VERIF_SEED=%d\n", prop, pi.World, tier, seed)
	sc, err := prepare(pi.World, "")
	defer cleanupAll()
	if err != nil {
		fmt.Fprintf(os.Stderr, "INFRASTRUCTURE: %v\n", err)
		return 2
	}
	var sc2 *scratch
	if w2 := alsoWorld[prop]; w2 != "" {
		sc2, err = prepare(w2, "")
		if err != nil {
			fmt.Fprintf(os.Stderr, "INFRASTRUCTURE: %v\n", err)
			return 2
		}
	}
	buildS := time.Since(start).Seconds()
	fmt.Printf("verif: built instrumented scratch copy (%d sites) in %.1fs\n", sc.sites, buildS)
	tc := tierFor(prop, tier)
	wi := worlds[pi.World]
	var detInfo map[string]any
	if tier == "thorough" && os.Getenv("VERIF_SKIP_SELFTEST") == "" {
		execs, bad, missing, _ := selftest(sc, prop, 12, true)
		if sc2 != nil {
			e2, b2, m2, _ := selftest(sc2, prop, 12, true)
			execs, bad, missing = execs+e2, bad+b2, missing+m2
		}
		detInfo = map[string]any{"seeds": 12, "plans_per_seed": 40, "executions": execs, "divergent": bad, "missing_or_failed": missing, "compared": "complete event logs of each binary under GOMAXPROCS 1/4/16 (World A: plain and race binary, each with itself)"}
		fmt.Printf("verif: determinism self-test executions=%d divergent=%d missing=%d\n", execs, bad, missing)
		if bad > 0 || missing > 0 {
			fmt.Fprintf(os.Stderr, "INFRASTRUCTURE: determinism self-test failed (%d divergent, %d missing): replay cannot be trusted\n", bad, missing)
			return 2
		}
	}

	type wjob struct {
		variant string
		idx     int
		sc      *scratch
	}
	var jobs []wjob
	for i := 0; i < tc.Workers; i++ {
		v := "plain"
		if sc2 != nil && tc.Workers >= 4 && i >= tc.Workers-tc.Workers/4 {
			jobs = append(jobs, wjob{v, i, sc2})
			continue
		}
		if wi.Race && i%2 == 1 && prop == "C11" {
			// the race oracle belongs to C11 only; for C08/C12 a race report is not their
			// business (and the testing package would fail the process on it)
			v = "race"
		}
		jobs = append(jobs, wjob{v, i, sc})
	}
	results := make([]workerResult, len(jobs))
	var wg sync.WaitGroup
	for i, j := range jobs {
		wg.Add(1)
		go func(i int, j wjob) {
			defer wg.Done()
			results[i] = runWorker(j.sc, prop, tier, j.variant, j.idx, h64("seed", seed, prop, j.idx)|1, tc.Budget, tc.Shrink, nil)
			results[i].sc = j.sc
		}(i, j)
	}
	wg.Wait()

	// World C: a goroutine or channel of the code under test that lives longer than
	// one synctest bubble kills the second run of every worker process. Fall back
	// to one process per simulated run.
	isolated := false
	if pi.World == "C" {
		for _, r := range results {
			if r.stats == nil && strings.Contains(readTail(r.logPath, 1<<30), "from outside bubble") {
				isolated = true
			}
		}
	}
	if isolated {
		fmt.Println("note: the code under test keeps goroutines / channels alive across simulated runs (synctest: \"... from outside bubble\"); falling back to one worker process per run - process-lifetime state is not explored in this mode")
		for i, j := range jobs {
			wg.Add(1)
			go func(i int, j wjob) {
				defer wg.Done()
				results[i] = runWorkerIsolated(j.sc, prop, tier, j.variant, j.idx, h64("seed", seed, prop, j.idx)|1, tc.Budget, tc.Shrink)
				results[i].sc = j.sc
			}(i, j)
		}
		wg.Wait()
	}

	// World C: the injected handler stall sleeps while it holds something that
	// goroutines of the code under test wait for (a lock shared with a background
	// goroutine): the bubble cannot advance. Repeat the batch without that fault.
	noStall := false
	if pi.World == "C" && !isolated {
		for _, r := range results {
			if r.stats == nil && strings.Contains(readTail(r.logPath, 1<<30), "the injected handler stall") {
				noStall = true
			}
		}
	}
	if noStall {
		fmt.Println("note: the injected handler stall wedged the simulation on this tree (a stalled handler holds a lock that background goroutines of the code under test wait for); repeating the batch without the stall fault")
		for i, j := range jobs {
			wg.Add(1)
			go func(i int, j wjob) {
				defer wg.Done()
				results[i] = runWorker(j.sc, prop, tier, j.variant, j.idx, h64("seed", seed, prop, j.idx)|1, tc.Budget, tc.Shrink, []string{"VERIF_NOSTALL=1"})
				results[i].sc = j.sc
			}(i, j)
		}
		wg.Wait()
	}

	// aggregate
	agg := workerStats{Counters: map[string]uint64{}}
	union := map[uint64]struct{}{}
	infra := []string{}
	type cand struct {
		ff      *failFile
		variant string
		sc      *scratch
	}
	cands := map[string]cand{}
	for _, r := range results {
		if r.stats != nil {
			agg.Runs += r.stats.Runs
			agg.NonTrivial += r.stats.NonTrivial
			agg.SimTimeNs += r.stats.SimTimeNs
			for k, v := range r.stats.Counters {
				agg.Counters[k] += v
			}
			if len(agg.Samples) < 3 {
				agg.Samples = append(agg.Samples, r.stats.Samples...)
			}
			if len(agg.Seeds) < 48 {
				agg.Seeds = append(agg.Seeds, r.stats.Seeds...)
			}
			if r.stats.HarnessErr != "" {
				infra = append(infra, fmt.Sprintf("worker %d: %s", r.idx, r.stats.HarnessErr))
			}
		}
		for _, h := range r.hashes {
			union[h] = struct{}{}
		}
		if r.timedOut {
			infra = append(infra, fmt.Sprintf("worker %d (%s): watchdog fired\n%s", r.idx, r.variant, readTail(r.logPath, 30)))
			continue
		}
		if r.fail != nil {
			if _, seen := cands[r.fail.Signature]; !seen {
				cands[r.fail.Signature] = cand{r.fail, r.variant, r.sc}
			}
		} else if r.exitErr != nil || r.stats == nil {
			infra = append(infra, fmt.Sprintf("worker %d (%s) failed without a violation file: %v\n%s", r.idx, r.variant, r.exitErr, readTail(r.logPath, 40)))
		}
	}
	if len(agg.Samples) > 3 {
		agg.Samples = agg.Samples[:3]
	}

	// confirm candidates by replay in a fresh process
	known := loadKnown()
	var sigs []string
	for s := range cands {
		sigs = append(sigs, s)
	}
	sort.Strings(sigs)
	nViol := 0
	var knownPrinted []string
	exit := 0
	for _, sig := range sigs {
		c := cands[sig]
		b, _ := json.MarshalIndent(c.ff, "", " ")
		sum := sha256.Sum256(b)
		rdir := filepath.Join(verifDir, "replays", prop)
		if d := os.Getenv("VERIF_REPLAYS"); d != "" {
			rdir = filepath.Join(d, prop)
		}
		_ = os.MkdirAll(rdir, 0o755)
		rpath := filepath.Join(rdir, fmt.Sprintf("%d-%s.json", c.ff.Seed, hex.EncodeToString(sum[:4])))
		if err := os.WriteFile(rpath, b, 0o644); err != nil {
			infra = append(infra, "cannot write replay file: "+err.Error())
			continue
		}
		got, outTxt, err := replayOnce(c.sc, prop, c.variant, rpath, nil)
		if err != nil {
			infra = append(infra, fmt.Sprintf("replay of %s failed: %v", rpath, err))
			continue
		}
		if c.ff.Crash && got == "PROCESS-CRASH" {
			got = sig
		}
		if got != sig && c.ff.Crash && c.ff.WorkerSeed != 0 {
			// the process died, but not from this plan alone: it needs what earlier
			// runs of the same process left behind
			hg, _, herr := replayHistory(c.sc, prop, c.variant, c.ff)
			if herr == nil && hg == "PROCESS-CRASH" {
				c.ff.History, c.ff.Variant = true, c.variant
				hb, _ := json.MarshalIndent(c.ff, "", " ")
				_ = os.WriteFile(rpath, hb, 0o644)
				got = sig
				fmt.Printf("note: %s (process death) reproduces only with the history of its worker process (seed %d, %d runs); replay file marked history=true\n", sig, c.ff.WorkerSeed, c.ff.RunIndex)
			}
		}
		if got != sig && !c.ff.Crash && c.ff.WorkerSeed != 0 {
			// the minimised plan alone does not show it: the violation needs state that
			// earlier runs of the same process left behind. Regenerate the whole history.
			hg, _, herr := replayHistory(c.sc, prop, c.variant, c.ff)
			if herr == nil && hg == sig {
				c.ff.History, c.ff.Variant = true, c.variant
				hb, _ := json.MarshalIndent(c.ff, "", " ")
				_ = os.WriteFile(rpath, hb, 0o644)
				got = sig
				fmt.Printf("note: %s reproduces only with the history of its worker process (seed %d, %d runs); replay file marked history=true\n", sig, c.ff.WorkerSeed, c.ff.RunIndex)
			}
		}
		if got != sig {
			infra = append(infra, fmt.Sprintf("violation %q did not reproduce from %s (replay gave %q)\n%s", sig, rpath, got, tail(outTxt, 20)))
			continue
		}
		isKnown := false
		for _, k := range known {
			if k.Property == prop && k.Signature == sig {
				isKnown = true
				line := fmt.Sprintf("KNOWN-FINDING: property=%s %s (%s) replay=%s", prop, k.Text, sig, rpath)
				fmt.Println(line)
				knownPrinted = append(knownPrinted, line)
			}
		}
		if isKnown {
			continue
		}
		nViol++
		exit = 1
		fmt.Printf("VIOLATION property=%s replay=%s\n", prop, rpath)
		fmt.Printf("  signature: %s\n  detail: %s\n", sig, c.ff.Violation.Detail)
	}
	if len(infra) > 0 && exit == 0 {
		exit = 2
	}
	wall := time.Since(start).Seconds()
	runWall := wall - buildS
	if runWall <= 0 {
		runWall = 1
	}
	faults, probes, skips, other := map[string]uint64{}, map[string]uint64{}, map[string]uint64{}, map[string]uint64{}
	for k, v := range agg.Counters {
		switch {
		case strings.HasPrefix(k, "fault."):
			faults[strings.TrimPrefix(k, "fault.")] = v
		case strings.HasPrefix(k, "probe."):
			probes[strings.TrimPrefix(k, "probe.")] = v
		case strings.HasPrefix(k, "skip."):
			skips[strings.TrimPrefix(k, "skip.")] = v
		default:
			other[k] = v
		}
	}
	samples := []any{}
	for _, s := range agg.Samples {
		samples = append(samples, s)
	}
	if len(samples) == 0 {
		samples = append(samples, "no non-trivial run recorded")
	}
	comp := worldComponents(pi.World)
	worldDesc := pi.World
	if sc2 != nil {
		worldDesc = pi.World + " (3/4 of the workers) + " + sc2.world + " (1/4 of the workers: the same clause for calls made while other simulated callers are inside the library)"
		comp["second_world"] = worldComponents(sc2.world)
	}
	ev := map[string]any{
		"property_id": prop,
		"tier":        tier,
		"seed":        int64(seed & 0x7fffffffffffffff),
		"level":       "exploration",
		"coverage": map[string]any{
			"evaluations":               agg.Runs,
			"distinct_nontrivial":       len(union),
			"nontrivial_runs":           agg.NonTrivial,
			"rule":                      pi.Rule,
			"samples":                   samples,
			"world":                     worldDesc,
			"workers":                   tc.Workers,
			"budget_s_per_worker":       tc.Budget,
			"runs_per_hour":             float64(agg.Runs) / runWall * 3600,
			"rapid_seeds_used":          agg.Seeds,
			"simulated_time_s":          agg.SimTimeNs / 1e9,
			"faults_fired":              faults,
			"probes_reached":            probes,
			"skipped_out_of_domain":     skips,
			"oracle_and_other_counters": other,
			"instrumented_sites":        sc.sites,
			"components":                comp,
			"toolchain":                 goBin + " -tags verif (GOTOOLCHAIN=local GOPROXY=off)",
			"known_findings_printed":    knownPrinted,
			"infrastructure_problems":   infra,
			"build_s":                   buildS,
			"determinism_selftest":      detInfo,
		},
		"assumptions": []string{
			"sampling, not enumeration: a clean batch is evidence, not proof",
			"oracles are self-referential (the library's own single calls executed alone) - see DESIGN.md 3.0",
			"the statement-level instrumentation (verifrt.Yield) does not change the behaviour of the code under test; gated by running the repository's own tests on the instrumented copy",
		},
		"wall_s":     wall,
		"violations": nViol,
	}
	eb, _ := json.MarshalIndent(ev, "", " ")
	evDir := filepath.Join(verifDir, "evidence")
	if d := os.Getenv("VERIF_EVIDENCE_DIR"); d != "" {
		evDir = d // sensitivity runs against deliberately broken trees must not overwrite the evidence
	}
	_ = os.MkdirAll(evDir, 0o755)
	if err := os.WriteFile(filepath.Join(evDir, prop+".json"), eb, 0o644); err != nil {
		fmt.Fprintf(os.Stderr, "INFRASTRUCTURE: cannot write evidence: %v\n", err)
		if exit == 0 {
			exit = 2
		}
	}
	for _, m := range infra {
		fmt.Fprintf(os.Stderr, "INFRASTRUCTURE: %s\n", m)
	}
	fmt.Printf("verif: property=%s runs=%d nontrivial=%d distinct=%d violations=%d wall=%.1fs exit=%d\n", prop, agg.Runs, agg.NonTrivial, len(union), nViol, wall, exit)
	return exit
}

func worldComponents(w string) map[string]any {
	real := []string{"package github.com/ja7ad/otp (statement-instrumented copy of the working tree)", "standard library (crypto/hmac, sha1/256/512, subtle, base32, net/url, encoding/json, time)"}
	var sim, notrun []string
	switch w {
	case "A":
		sim = []string{"goroutine choice (baton scheduler, one runnable task at a time)", "sync.Pool (simulated pool: steal/miss/poison/drain/adversary)", "crypto/rand.Reader (plan-determined stream and chunking)"}
		notrun = []string{"internal/app (REST)", "wasm binding", "real multi-P parallel execution"}
	case "B":
		sim = []string{"token / OCRA client nodes, verifier node, their clocks (offset, drift, jumps)", "transport (delay, loss, duplication, reordering, replay, corruption)", "token crash/restart with durable counter copy"}
		notrun = []string{"internal/app (REST)", "wasm binding", "goroutine interleavings (World A)"}
	case "C":
		real = append(real, "internal/app/api: handlers, DTO validation, router, middleware, NewServer configuration", "fasthttp v1.60.0 (parser, worker pool, timeouts, limits)")
		sim = []string{"wall clock and timers (testing/synctest bubble)", "TCP (net.Pipe based listener/conn with plan-chosen remote addresses)", "clients", "crypto/rand.Reader"}
		notrun = []string{"internal/app/cmd/main.go (flags, signals, ListenAndServe)", "swagger docs handler", "wasm binding"}
	}
	return map[string]any{"real": real, "simulated": sim, "not_run": notrun}
}

func readTail(p string, n int) string {
	b, err := os.ReadFile(p)
	if err != nil {
		return ""
	}
	return tail(string(b), n)
}

// ---------------------------------------------------------------------------
// replay

func cmdReplay(args []string) int {
	if len(args) < 1 {
		usage()
	}
	path, _ := filepath.Abs(args[0])
	b, err := os.ReadFile(path)
	if err != nil {
		fmt.Fprintln(os.Stderr, "INFRASTRUCTURE:", err)
		return 2
	}
	var ff failFile
	if err := json.Unmarshal(b, &ff); err != nil {
		fmt.Fprintln(os.Stderr, "INFRASTRUCTURE: bad replay file:", err)
		return 2
	}
	pi, ok := props[ff.Property]
	if !ok {
		fmt.Fprintln(os.Stderr, "INFRASTRUCTURE: unknown property in replay file")
		return 2
	}
	rw := pi.World
	if ff.World != "" && ff.World == alsoWorld[ff.Property] {
		rw = ff.World
	}
	sc, err := prepare(rw, "")
	defer cleanupAll()
	if err != nil {
		fmt.Fprintf(os.Stderr, "INFRASTRUCTURE: %v\n", err)
		return 2
	}
	variant := "plain"
	if strings.HasPrefix(ff.Violation.Clause, "race") && sc.bins["race"] != "" {
		variant = "race"
	}
	var got, out string
	if ff.History {
		if ff.Variant != "" && sc.bins[ff.Variant] != "" {
			variant = ff.Variant
		}
		got, out, err = replayHistory(sc, ff.Property, variant, &ff)
	} else {
		got, out, err = replayOnce(sc, ff.Property, variant, path, nil)
	}
	if err != nil {
		fmt.Fprintf(os.Stderr, "INFRASTRUCTURE: %v\n", err)
		return 2
	}
	for _, l := range strings.Split(out, "\n") {
		if strings.HasPrefix(l, "REPLAY-") {
			fmt.Println(l)
		}
	}
	if got == "PROCESS-CRASH" {
		fmt.Printf("REPLAY-RESULT the process crashed while executing the plan\n%s\n", tail(out, 25))
		got = ff.Signature
		if !ff.Crash {
			got = ff.Property + "/process-survives/-/process-crash"
		}
	}
	if got == "" {
		fmt.Printf("replay: no violation on the current tree (recorded: %s)\n", ff.Signature)
		return 0
	}
	if got != ff.Signature {
		fmt.Printf("replay: a different violation was found: %s (recorded: %s)\n", got, ff.Signature)
	}
	fmt.Printf("VIOLATION property=%s replay=%s\n", ff.Property, path)
	return 1
}

// ---------------------------------------------------------------------------
// determinism self-test

func cmdSelftest(args []string) int {
	if len(args) < 1 {
		usage()
	}
	prop := args[0]
	pi, ok := props[prop]
	if !ok {
		return 2
	}
	sc, err := prepare(pi.World, "")
	defer cleanupAll()
	if err != nil {
		fmt.Fprintf(os.Stderr, "INFRASTRUCTURE: %v\n", err)
		return 2
	}
	nSeeds := 32
	if v := os.Getenv("VERIF_SELFTEST_SEEDS"); v != "" {
		nSeeds, _ = strconv.Atoi(v)
	}
	execs, bad, missing, sample := selftest(sc, prop, nSeeds, true)
	if w2 := alsoWorld[prop]; w2 != "" {
		sc2, err := prepare(w2, "")
		if err != nil {
			fmt.Fprintf(os.Stderr, "INFRASTRUCTURE: %v\n", err)
			return 2
		}
		e2, b2, m2, _ := selftest(sc2, prop, nSeeds, true)
		execs, bad, missing = execs+e2, bad+b2, missing+m2
	}
	fmt.Printf("sample: seed=7000 %v\n", sample)
	fmt.Printf("selftest determinism property=%s seeds=%d executions=%d divergent=%d missing-or-failed=%d\n", prop, nSeeds, execs, bad, missing)
	if bad > 0 || missing > 0 {
		return 2
	}
	return 0
}

// selftest runs the same worker seeds under GOMAXPROCS 1/4/16 (World A: plain and
// race binary) and compares the complete event logs.
func selftest(sc *scratch, prop string, nSeeds int, verbose bool) (execs, bad, missing int, sample map[string]string) {
	variants := []string{"plain"}
	if sc.bins["race"] != "" && prop == "C11" {
		variants = append(variants, "race")
	}
	procs := []string{"1", "4", "16"}
	sums := map[int]map[string]string{}
	var mu sync.Mutex
	sem := make(chan struct{}, 16)
	var wg sync.WaitGroup
	for s := 0; s < nSeeds; s++ {
		for rep, gp := range procs {
			for _, variant := range variants {
				wg.Add(1)
				sem <- struct{}{}
				go func(s, rep int, gp, variant string) {
					defer wg.Done()
					defer func() { <-sem }()
					logf := filepath.Join(sc.dir, fmt.Sprintf("evlog-%d-%d-%s", s, rep, variant))
					r := runWorker(sc, prop, "quick", variant, 1000+s*10+rep*2+len(variant)%2, uint64(7000+s), 0.1, "1s",
						[]string{"VERIF_EVENTLOG=" + logf, "VERIF_MAX_RUNS=40", "VERIF_CHECKS=40", "GOMAXPROCS=" + gp})
					b, err := os.ReadFile(logf)
					sum := "missing"
					if err == nil {
						h := sha256.Sum256(b)
						sum = hex.EncodeToString(h[:8]) + fmt.Sprintf("/%dB", len(b))
					}
					if keep := os.Getenv("VERIF_SELFTEST_KEEP"); keep != "" {
						_ = os.MkdirAll(keep, 0o755)
						_ = os.WriteFile(filepath.Join(keep, filepath.Base(logf)), b, 0o644)
					}
					_ = os.Remove(logf)
					if r.exitErr != nil || r.timedOut {
						sum += " (worker failed)"
					}
					mu.Lock()
					if sums[s] == nil {
						sums[s] = map[string]string{}
					}
					sums[s][fmt.Sprintf("%s/GOMAXPROCS=%s", variant, gp)] = sum
					mu.Unlock()
				}(s, rep, gp, variant)
			}
		}
	}
	wg.Wait()
	for s := 0; s < nSeeds; s++ {
		// the logs of one binary must be identical under every GOMAXPROCS; the race
		// binary is compared with itself (it caps the Repeat amplifier lower than the
		// plain one, so a plan that uses it legitimately logs different totals)
		uniq := map[string]map[string]bool{}
		for k, v := range sums[s] {
			variant := strings.SplitN(k, "/", 2)[0]
			if uniq[variant] == nil {
				uniq[variant] = map[string]bool{}
			}
			uniq[variant][v] = true
			if strings.HasPrefix(v, "missing") || strings.Contains(v, "worker failed") {
				missing++
			}
		}
		diverged := false
		for _, u := range uniq {
			if len(u) != 1 {
				diverged = true
			}
		}
		if diverged {
			bad++
			if verbose {
				fmt.Printf("NONDETERMINISM seed=%d: %v\n", 7000+s, sums[s])
			}
		}
	}
	return nSeeds * len(procs) * len(variants), bad, missing, sums[0]
}

var _ = io.Discard
var _ = bytes.NewReader
