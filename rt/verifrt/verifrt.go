//go:build verif

// Package verifrt is the runtime the instrumented copy of ja7ad/otp calls.
// It is copied into the scratch module at check time; it never exists in
// /repo. See /verif/DESIGN.md section 2.2.
package verifrt

import (
	"bytes"
	"reflect"
	"runtime"
	"sync/atomic"
	"time"
)

// SiteInfo describes one instrumented statement.
type SiteInfo struct {
	ID   int
	File string
	Line int
	Func string
	Pool bool
}

// Sites is filled by the generated verif_sites.go.
var Sites []SiteInfo

// ---------------------------------------------------------------------------
// work meter

// WorkCapTrip is the sentinel Yield panics with when the meter exceeds the cap.
type WorkCapTrip struct{ Meter uint64 }

func (w WorkCapTrip) Error() string { return "verifrt: work cap exceeded" }

var (
	// plain mode (baton active or single goroutine): non-atomic counters,
	// one per task (index cur+1; 0 = driver)
	meters  [maxIDs + 1]uint64
	caps    [maxIDs + 1]uint64
	tripped bool
	// shared mode (World C: real goroutines between synctest.Wait barriers)
	shared        bool
	sharedMeter   atomic.Uint64
	sharedCap     atomic.Uint64
	sharedTripped atomic.Bool
	// World C: every preemptEvery-th instrumented statement the running handler
	// goroutine gives up the processor (runtime.Gosched), so that handlers
	// served "at the same time" on one P really interleave at statement level
	preemptEvery atomic.Uint64
	Preemptions  atomic.Uint64

	stallAt  atomic.Uint64
	stallDur atomic.Int64
	Stalls   atomic.Uint64
)

// SetStall makes the goroutine that executes the at-th instrumented statement
// since the last ResetMeter sleep for d (shared mode; inside a synctest bubble
// this is fake time: a slow or descheduled handler). at = 0 disarms.
func SetStall(at uint64, d time.Duration) {
	stallDur.Store(int64(d))
	stallAt.Store(at)
}

// onRequestGoroutine: the stall fault models a slow or descheduled *request
// handler*. A goroutine the code under test started in the background is never
// stalled: it may hold a lock that handlers of later requests need, and a
// sleeper that holds a contended lock wedges a synctest bubble (goroutines
// blocked on a mutex are not durably blocked, so fake time would never reach
// the end of the sleep).
func onRequestGoroutine() bool {
	var buf [4096]byte
	n := runtime.Stack(buf[:], false)
	return bytes.Contains(buf[:n], []byte("fasthttp.(*Server).serveConn"))
}

// SetPreempt arms (n > 0) or disarms (0) forced yields in shared mode.
func SetPreempt(n uint64) { preemptEvery.Store(n) }

// SetShared switches the meter to atomic counters (World C).
func SetShared(on bool) { shared = on }

// ResetMeter zeroes the meter and arms the cap (0 = no cap).
//
//go:norace
func ResetMeter(cap uint64) {
	if shared {
		sharedMeter.Store(0)
		sharedCap.Store(cap)
		sharedTripped.Store(false)
		return
	}
	i := meterIdx()
	meters[i], caps[i], tripped = 0, cap, false
}

//go:norace
func meterIdx() int {
	if schedActive && cur >= 0 && cur < maxIDs {
		return cur + 1
	}
	return 0
}

// Meter returns the number of instrumented statements executed since the last reset.
//
//go:norace
func Meter() uint64 {
	if shared {
		return sharedMeter.Load()
	}
	return meters[meterIdx()]
}

// Tripped reports whether the cap was exceeded since the last reset.
//
//go:norace
func Tripped() bool {
	if shared {
		return sharedTripped.Load()
	}
	return tripped
}

// gcAt: in plain mode the k-th instrumented statement after the last
// ResetMeter runs a garbage collection (and lets the finalizer goroutine run):
// the "GC / finalizer at an arbitrary point inside a call" fault.
var TripDebug bool
var gcAt uint64
var GCsInjected uint64

// SetGCAt arms (k > 0) or disarms the fault for the current task / driver.
//
//go:norace
func SetGCAt(k uint64) { gcAt = k }

//go:norace
func injectGC() {
	gcAt = 0
	GCsInjected++
	runtime.GC()
	for i := 0; i < 4; i++ {
		runtime.Gosched() // finalizers run on their own goroutine
	}
}

// Yield is called in front of every instrumented statement.
//
//go:norace
func Yield(site int) {
	if shared {
		m := sharedMeter.Add(1)
		// panic at the crossing and then every 4096 statements: deferred recovery
		// code (a few statements) can run, a runaway loop is hit again
		if c := sharedCap.Load(); c != 0 && m > c && (m-c)%4096 == 1 {
			sharedTripped.Store(true)
			panic(WorkCapTrip{m})
		}
		if st := stallAt.Load(); st != 0 && m == st && onRequestGoroutine() {
			Stalls.Add(1)
			time.Sleep(time.Duration(stallDur.Load()))
		}
		if pe := preemptEvery.Load(); pe != 0 && m%pe == 0 {
			Preemptions.Add(1)
			runtime.Gosched()
		}
		return
	}
	if foreign > 0 {
		// a finalizer of the code under test, run by the runtime's own goroutine: it
		// is not a task and must not touch the scheduler (it counts on the driver's meter)
		meters[0]++
		return
	}
	i := meterIdx()
	meters[i]++
	if gcAt != 0 && meters[i] == gcAt {
		injectGC()
	}
	if caps[i] != 0 && meters[i] > caps[i] && (meters[i]-caps[i])%4096 == 1 {
		if TripDebug {
			println("VERIF-TRIP task", cur, "meter", meters[i], "cap", caps[i], "site", site, "root", rootOf[cur&(maxIDs-1)])
		}
		tripped = true
		panic(WorkCapTrip{meters[i]})
	}
	if schedActive {
		spinStreak = 0
		schedPoint(site)
	}
}

// ---------------------------------------------------------------------------
// baton scheduler (World A). All state below is touched only inside
// //go:norace functions, by the goroutine that holds the baton, so the race
// detector sees no happens-before edge created by the scheduler itself.

const mainTask = -1

// Task ids: the callers the harness starts are 0..nTasks-1; goroutines the code
// under test starts itself (verifrt.Go) get ids from spawnBase upwards. Started
// goroutines outlive the run that started them: one that is still alive when
// all callers have returned (a worker nobody waited for, a background service
// loop) stays parked, keeps its id and is scheduled again in the next run of
// this process - exactly as a real goroutine would still be there for the next
// call. All state is in fixed arrays (no reallocation while tasks run).
const (
	spawnBase  = 1024
	maxSpawned = 4096
	maxIDs     = spawnBase + maxSpawned
)

var (
	schedActive bool
	cur         int // task holding the baton (mainTask = driver)
	nTasks      int // callers of this run
	spawnHigh   int // spawn slots used so far in this process
	alive       [maxIDs]bool
	nAlive      int
	nAliveBase  int
	rootOf      [maxIDs]int32 // the caller on whose behalf a task runs (-1: started in an earlier run)

	swAfter   []uint16 // run-length schedule: switch after swAfter[i] more ordinary yields ...
	swTo      []uint16 // ... to the swTo[i]-th other alive task
	swPos     int
	countdown int
	hotDec    []uint16 // decisions at hot sites
	hotPos    int
	hotSite   []bool
	hotReader bool

	// statistics / trace
	Switches          uint64
	Decisions         uint64
	traceHash         uint64 // FNV-1a over (from,to,site) of every hand-over
	traceOn           bool
	Trace             []int32       // optional full decision trace: site, from, to triples
	curCall           [maxIDs]int32 // per task: index of the call currently executing (set by harness)
	inPoolCrit        [maxIDs]int8  // per task: between Pool.Get and Pool.Put
	ProbeSwitchInCrit uint64
	ProbeTwoInCrit    uint64

	Spawned     uint64 // goroutines the code under test started during this run
	CarriedOver uint64 // started goroutines still alive from earlier runs when this run began
	LeftWaiting uint64 // started goroutines still alive (waiting) when this run ended
	freeIDs     [maxSpawned]int
	nFree       int
)

var (
	starve   = -1
	starveAt uint64
	starved  bool
	Starved  uint64 // runs in which the stalled-caller fault fired
)

// nextID enumerates task ids in scheduling order: callers, then started goroutines.
//
//go:norace
func nextID(i int) int {
	i++
	if i < nTasks {
		return i
	}
	if i < spawnBase {
		i = spawnBase
	}
	if i < spawnBase+spawnHigh {
		return i
	}
	return -1
}

// SchedConfig is the pre-drawn schedule of one run.
type SchedConfig struct {
	Tasks     int
	After     []uint16 // run-length encoded switches at ordinary sites
	To        []uint16
	Hot       []uint16 // one decision per visit of a hot site (0 = keep running)
	HotSites  []int
	HotReader bool // the scheduling point after each chunk of the random reader (site -2) is hot
	Trace     bool
	// Stalled caller ("slow node"): task Starve-1 is descheduled at the StarveAt-th
	// statement of a call and is not chosen again while any other task can run
	// (a task waiting for a lock it holds still reaches it). 0 = none.
	Starve   int
	StarveAt uint64
}

// SchedStart arms the scheduler; the caller (driver) holds the baton.
//
//go:norace
func SchedStart(c SchedConfig) {
	if c.Tasks > spawnBase {
		panic("verifrt: too many caller tasks")
	}
	nTasks = c.Tasks
	for i := 0; i < spawnBase; i++ {
		alive[i] = i < c.Tasks
		rootOf[i] = int32(i)
		meters[i+1], caps[i+1] = 0, 0
		curCall[i], inPoolCrit[i] = -1, 0
		if blockedOn[i] != 0 {
			blockedOn[i] = 0
			nBlocked--
		}
	}
	meters[0], caps[0] = 0, 0
	nAliveBase = c.Tasks
	nAlive = c.Tasks
	CarriedOver = 0
	for i := spawnBase; i < spawnBase+spawnHigh; i++ {
		if alive[i] {
			nAlive++
			CarriedOver++
			rootOf[i] = -1
			curCall[i], inPoolCrit[i] = -1, 0
			meters[i+1] = 0
		}
	}
	swAfter, swTo, swPos = c.After, c.To, 0
	countdown = -1
	if len(swAfter) > 0 {
		countdown = int(swAfter[0])
	}
	hotDec, hotPos = c.Hot, 0
	if len(hotSite) != len(Sites)+1 {
		hotSite = make([]bool, len(Sites)+1)
	}
	for i := range hotSite {
		hotSite[i] = false
	}
	for _, s := range c.HotSites {
		if s >= 0 && s < len(hotSite) {
			hotSite[s] = true
		}
	}
	hotReader = c.HotReader
	starve, starveAt, starved = c.Starve-1, c.StarveAt, false
	Switches, Decisions, traceHash = 0, 0, 14695981039346656037
	ProbeSwitchInCrit, ProbeTwoInCrit = 0, 0
	Spawned, LeftWaiting, spinStreak, selectPollers = 0, 0, 0, 0
	traceOn = c.Trace
	Trace = Trace[:0]
	cur = mainTask
	schedActive = true
}

// SchedStop disarms the scheduler.
//
//go:norace
func SchedStop() { schedActive = false }

// TraceHash returns the hash of the hand-over sequence of the last run.
//
//go:norace
func TraceHash() uint64 { return traceHash }

//go:norace
func mix(v uint64) {
	traceHash ^= v
	traceHash *= 1099511628211
}

//go:norace
func nextDecision(site int) uint16 {
	Decisions++
	if (site >= 0 && site < len(hotSite) && hotSite[site]) || (site == -2 && hotReader) {
		if hotPos < len(hotDec) {
			d := hotDec[hotPos]
			hotPos++
			return d
		}
		return 0
	}
	if countdown < 0 {
		return 0
	}
	if countdown > 0 {
		countdown--
		return 0
	}
	d := uint16(1)
	if swPos < len(swTo) {
		d = swTo[swPos] + 1
		if d == 0 {
			d = 1
		}
	}
	swPos++
	if swPos < len(swAfter) {
		countdown = int(swAfter[swPos])
	} else {
		countdown = -1
	}
	return d
}

// pickOther maps decision d (>0) to an alive task other than me; -2 if none.
//
//go:norace
func pickOther(me int, d uint16) int {
	n := nAlive - nBlocked
	if me >= 0 && alive[me] && blockedOn[me] == 0 {
		n--
	}
	if n <= 0 {
		return -2
	}
	skip := -1
	if starved && starve >= 0 && starve != me && alive[starve] && blockedOn[starve] == 0 && n > 1 {
		skip = starve
		n--
	}
	k := int(d-1) % n
	for i := nextID(-1); i >= 0; i = nextID(i) {
		if i == me || i == skip || !alive[i] || blockedOn[i] != 0 {
			continue
		}
		if k == 0 {
			return i
		}
		k--
	}
	return -2
}

//go:norace
func handOver(me, to, site int) {
	Switches++
	mix(uint64(uint32(site))<<32 | uint64(uint16(me))<<16 | uint64(uint16(to)))
	if traceOn {
		traceAdd(int32(site), int32(me), int32(to))
	}
	if me >= 0 && me < maxIDs && inPoolCrit[me] > 0 {
		ProbeSwitchInCrit++
		if to >= 0 && to < maxIDs && inPoolCrit[to] > 0 {
			ProbeTwoInCrit++
		}
	}
	cur = to
}

//go:norace
func traceAdd(a, b, c int32) {
	if len(Trace)+3 > cap(Trace) {
		nt := make([]int32, len(Trace), 2*cap(Trace)+384)
		for i := range Trace {
			nt[i] = Trace[i]
		}
		Trace = nt
	}
	n := len(Trace)
	Trace = Trace[:n+3]
	Trace[n], Trace[n+1], Trace[n+2] = a, b, c
}

//go:norace
func waitBaton(me int) {
	spins := 0
	for cur != me || !schedActive {
		if !schedActive && me >= spawnBase {
			// a started goroutine parked between two runs: do not compete with the driver
			time.Sleep(20 * time.Microsecond)
			continue
		}
		runtime.Gosched()
		spins++
		if spins > 200_000_000 {
			// nobody has passed the baton for minutes of spinning: the holder is blocked
			// on something the scheduler does not own (a channel, WaitGroup or Cond in
			// the code under test). Reported as infrastructure trouble, never as a pass.
			panic("verifrt: baton holder is blocked outside the simulated scheduler (unsupported blocking primitive in the code under test)")
		}
	}
	if parkYield {
		// the baton came from a task that is about to block in the runtime: give it the processor once
		parkYield = false
		runtime.Gosched()
	}
}

//go:norace
func schedPoint(site int) {
	me := cur
	if me == mainTask {
		return // driver code (reference calls) is not scheduled
	}
	if me == starve && !starved && site >= 0 && meters[me+1] >= starveAt {
		if to := pickOther(me, 1); to >= 0 {
			starved = true
			Starved++
			handOver(me, to, -14)
			waitBaton(me)
			return
		}
	}
	d := nextDecision(site)
	if d == 0 {
		return
	}
	to := pickOther(me, d)
	if to < 0 {
		return
	}
	handOver(me, to, site)
	waitBaton(me)
}

// SchedPoint is an explicit scheduling point for simulated primitives
// (Pool.Get/Put, Reader chunks, Mutex spin); site ids < 0 are runtime sites.
//
//go:norace
func SchedPoint(site int) {
	if schedActive {
		spinStreak = 0 // an explicit point is passed after a simulated primitive made progress
		schedPoint(site)
	}
}

// TaskBegin parks the calling goroutine until task id first receives the baton.
//
//go:norace
func TaskBegin(id int) { waitBaton(id) }

// TaskEnd marks the task finished and passes the baton on (decision driven).
//
//go:norace
func TaskEnd(id int) {
	alive[id] = false
	nAlive--
	if id < spawnBase {
		nAliveBase--
	} else {
		freeIDs[nFree] = id
		nFree++
	}
	d := nextDecision(-100)
	to := pickOther(id, d+1)
	if to < 0 {
		if nAliveBase > 0 {
			panic(Deadlock{Msg: deadlockInfo("verifrt: deadlock - the remaining callers are parked on channels nobody will serve"), PollingSelect: selectPollers > 0})
		}
		to = mainTask
	}
	handOver(id, to, -100)
}

// SchedRun is called by the driver after all task goroutines were started:
// it hands the baton to the first task and returns when every task has ended.
//
//go:norace
func SchedRun(first int) {
	if nTasks == 0 {
		return
	}
	if first < 0 || first >= nTasks {
		first = 0
	}
	handOver(mainTask, first, -101)
	for cur != mainTask {
		runtime.Gosched()
	}
	for i := spawnBase; i < spawnBase+spawnHigh; i++ {
		if alive[i] {
			LeftWaiting++
		}
	}
}

// RunAlone runs f as the only caller task of a run without forced switches:
// what the driver uses for "called alone" when the code under test has
// goroutines of its own (they, and those parked from earlier runs, still run
// whenever f waits for them). A panic of f is re-raised in the caller.
func RunAlone(f func()) {
	SchedStart(SchedConfig{Tasks: 1})
	done := make(chan struct{})
	var pv any
	go func() {
		defer close(done)
		TaskBegin(0)
		defer TaskEnd(0)
		defer func() { pv = recover() }()
		f()
	}()
	SchedRun(0)
	SchedStop()
	<-done
	if pv != nil {
		panic(pv)
	}
}

// CurTask returns the task that holds the baton (mainTask = -1 for the driver).
//
//go:norace
func CurTask() int {
	if !schedActive {
		return mainTask
	}
	return cur
}

// ForceMain is used by the driver's panic path: take the baton back.
//
//go:norace
func ForceMain() { cur = mainTask }

// ---------------------------------------------------------------------------
// finalizers of the code under test

var foreign int

//go:norace
func foreignEnter() { foreign++ }

//go:norace
func foreignLeave() { foreign-- }

// SetFinalizer replaces runtime.SetFinalizer in the instrumented copy: the
// finalizer runs on the runtime's finalizer goroutine, which is no task of the
// baton scheduler; its instrumented statements must not take scheduling
// decisions on behalf of whichever task holds the baton at that moment.
func SetFinalizer(obj, fin any) {
	if fin == nil {
		runtime.SetFinalizer(obj, nil)
		return
	}
	fv := reflect.ValueOf(fin)
	if fv.Kind() != reflect.Func {
		runtime.SetFinalizer(obj, fin) // let the runtime report the misuse
		return
	}
	w := reflect.MakeFunc(fv.Type(), func(args []reflect.Value) []reflect.Value {
		foreignEnter()
		defer foreignLeave()
		return fv.Call(args)
	})
	runtime.SetFinalizer(obj, w.Interface())
}
