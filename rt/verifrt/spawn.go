//go:build verif

package verifrt

import (
	"reflect"
	"runtime"
	"sync"
)

// Goroutines and WaitGroups of the code under test in the World A build. The
// instrumenter rewrites `go func() {...}()` into verifrt.Go(func() {...}) and
// sync.WaitGroup into verifrt.WaitGroup. Inside a simulated run a started
// goroutine becomes one more task of the baton scheduler: it is a real
// goroutine (the race detector sees the real `go` edge) that parks until it is
// handed the baton, and which task runs next stays the plan's decision.

// LibGoroutines is set by the generated site table when the package under test
// contains go statements and this build schedules every call (World B).
var LibGoroutines bool

// StrictSpawn is set by the world harnesses (not by the repository-test gate,
// which runs the package's own tests on the instrumented copy without a
// scheduler): starting a goroutine outside a run is then a harness defect.
var StrictSpawn bool

// Go starts fn as a goroutine of the code under test.
func Go(fn func()) {
	id := spawnTask()
	if id < 0 {
		go fn()
		return
	}
	go func() {
		waitBaton(id)
		defer endSpawned(id)
		fn()
	}()
	SchedPoint(-9)
}

//go:norace
func spawnTask() int {
	if !schedActive || cur == mainTask {
		if LibGoroutines && StrictSpawn {
			// every library call of such a build is made inside a run (RunAlone at least):
			// a goroutine started outside would run outside the baton discipline
			panic("verifrt: the code under test started a goroutine outside a simulated run (harness defect)")
		}
		return -1
	}
	parent := cur
	var id int
	if nFree > 0 {
		// the slot of a started goroutine that has ended is used again
		nFree--
		id = freeIDs[nFree]
	} else {
		if spawnHigh >= maxSpawned {
			panic(TooManyGoroutines{})
		}
		id = spawnBase + spawnHigh
		spawnHigh++
	}
	alive[id] = true
	nAlive++
	rootOf[id] = rootOf[parent]
	inPoolCrit[id] = 0
	curCall[id] = curCall[parent]
	meters[id+1], caps[id+1] = 0, caps[parent+1]
	Spawned++
	return id
}

// endSpawned ends a started goroutine. A work-cap trip inside it is absorbed
// here (the sentinel belongs to the harness, not to the code under test); any
// other panic goes on and kills the process, as it would outside the simulation.
func endSpawned(id int) {
	if v := recover(); v != nil {
		if _, ok := v.(WorkCapTrip); !ok {
			panic(v)
		}
	}
	taskEndSpawned(id)
}

//go:norace
func taskEndSpawned(id int) {
	// a started goroutine only ever runs while it holds the baton, i.e. inside a run
	TaskEnd(id)
}

// TooManyGoroutines: more than maxSpawned started goroutines alive at once - a
// limit of the simulator, reported by the harness as infrastructure trouble.
type TooManyGoroutines struct{}

func (TooManyGoroutines) Error() string {
	return "verifrt: more than 4096 goroutines of the code under test alive at once (simulator limit)"
}

// WaitGroup replaces sync.WaitGroup: Wait polls and passes the baton instead
// of blocking in the runtime; the real WaitGroup inside keeps the
// happens-before edges Done -> Wait for the race detector.
type WaitGroup struct {
	wg sync.WaitGroup
	mu sync.Mutex
	n  int
}

func (w *WaitGroup) Add(d int) {
	w.mu.Lock()
	w.n += d
	neg := w.n < 0
	w.mu.Unlock()
	if neg {
		panic("sync: negative WaitGroup counter")
	}
	w.wg.Add(d)
	SchedPoint(-10)
}

func (w *WaitGroup) Done() { w.Add(-1) }

func (w *WaitGroup) Wait() {
	if !chanSim() {
		w.wg.Wait()
		return
	}
	for {
		w.mu.Lock()
		n := w.n
		w.mu.Unlock()
		if n == 0 {
			break
		}
		waitSpin()
	}
	w.wg.Wait()
	SchedPoint(-11)
}

//go:norace
func waitSpin() { ChanWaits++; spin() }

// SelectStart picks the case a rewritten select polls first (see the
// instrumenter): a scheduling decision of the plan inside a simulated run, the
// first case otherwise.
//
//go:norace
func SelectStart(n int) int {
	if !schedActive || cur == mainTask || n <= 1 {
		return 0
	}
	r := int(nextDecision(-12)) % n
	mix(uint64(0xC5<<56) | uint64(r))
	return r
}

// Only lets case i of a rewritten select see its channel in the iterations that
// belong to it and a nil channel (never ready) in all others.
func Only[T any](turn, n, i int, ch <-chan T) <-chan T {
	if turn%n != i {
		return nil
	}
	return ch
}

func OnlySend[T any](turn, n, i int, ch chan<- T) chan<- T {
	if turn%n != i {
		return nil
	}
	return ch
}

// SelectSpin is the default case the instrumenter adds to a blocking select:
// after a full round without a ready case the task lets the others run. dirs
// has one letter per case ('r' receive, 's' send), chans the case channels: if
// the partner of one of them is marked as parked but has not reached the
// runtime yet, the select polls again instead (see Recv2).
func SelectSpin(t, n int, dirs string, chans ...any) {
	if (t+1)%n != 0 {
		return
	}
	if chanSim() {
		if selectPartnerPending(dirs, chans) {
			noteRetry()
			runtime.Gosched()
			return
		}
		selectWait()
		return
	}
	runtime.Gosched()
}

// SelectMore: a select with a default polls each case once before the default
// runs - and again while the partner of a case is on its way into the runtime.
func SelectMore(t, n int, dirs string, chans ...any) bool {
	if t+1 < n {
		return true
	}
	if chanSim() && (t+1)%n == 0 && t < 1000*n && selectPartnerPending(dirs, chans) {
		noteRetry()
		runtime.Gosched()
		return true
	}
	return false
}

func selectPartnerPending(dirs string, chans []any) bool {
	for i, c := range chans {
		if c == nil || i >= len(dirs) {
			continue
		}
		rv := reflect.ValueOf(c)
		if rv.Kind() != reflect.Chan || rv.IsNil() || rv.Cap() != 0 {
			continue
		}
		if partnerMarked(rv.Pointer(), dirs[i] == 'r') {
			return true
		}
	}
	return false
}

// selectWait: like waitSpin, but the task is counted as a polling select while it waits.
//
//go:norace
func selectWait() {
	ChanWaits++
	selectPollers++
	spin()
	selectPollers--
}

var selectPollers int

// GoN: `go f(a...)` with the function value and the arguments evaluated by the
// starting goroutine, as the go statement does.
func Go1[A any](f func(A), a A)                       { Go(func() { f(a) }) }
func Go2[A, B any](f func(A, B), a A, b B)            { Go(func() { f(a, b) }) }
func Go3[A, B, C any](f func(A, B, C), a A, b B, c C) { Go(func() { f(a, b, c) }) }
func Go5[A, B, C, D, E any](f func(A, B, C, D, E), a A, b B, c C, d D, e E) {
	Go(func() { f(a, b, c, d, e) })
}
func Go6[A, B, C, D, E, F any](f func(A, B, C, D, E, F), a A, b B, c C, d D, e E, g F) {
	Go(func() { f(a, b, c, d, e, g) })
}
func Go7[A, B, C, D, E, F, G any](f func(A, B, C, D, E, F, G), a A, b B, c C, d D, e E, g F, h G) {
	Go(func() { f(a, b, c, d, e, g, h) })
}
func Go8[A, B, C, D, E, F, G, H any](f func(A, B, C, D, E, F, G, H), a A, b B, c C, d D, e E, g F, h G, i H) {
	Go(func() { f(a, b, c, d, e, g, h, i) })
}
func Go4[A, B, C, D any](f func(A, B, C, D), a A, b B, c C, d D) { Go(func() { f(a, b, c, d) }) }
