//go:build verif

package verifrt

import (
	"reflect"
	"sync"
)

// Pool replaces sync.Pool in the World A build (textual swap of the selector).
// Outside a simulated run it is a plain LIFO free list ("pass-through").
// Every stored object sits in its own 1-buffered channel so that Put -> Get
// carries the same happens-before edge for the race detector as sync.Pool.
type Pool struct {
	New func() any

	slots  [maxSlots]chan any
	nslots int
	reg    bool
}

const (
	maxSlots = 128
	maxPools = 64
	maxOwner = 512
)

// PoolConfig is the pre-drawn behaviour of all pools in one run.
type PoolConfig struct {
	Dec        []uint16 // one decision per Get/Put (exhausted: LIFO, keep, poison if enabled)
	Poison     bool
	PoisonSeed uint64
	MissW      int // 1 in MissW Gets is a miss although objects are stored (0 = never)
	DropW      int // 1 in DropW Puts drops the object (0 = never)
}

var (
	allPools [maxPools]*Pool
	nPools   int
	poolSim  bool
	poolCfg  PoolConfig
	poolPos  int
	lcg      uint64

	// statistics of the current run (read by the harness after SchedStop)
	PoolGets, PoolMisses, PoolSteals, PoolPuts, PoolDrops, PoolPoisons, PoolDrains, PoolForeign uint64
	ownerPtr                                                                                    [maxOwner]uintptr
	ownerTask                                                                                   [maxOwner]int
	nOwner                                                                                      int
	ownerOn                                                                                     bool
)

// PoolSimStart switches all pools to plan-driven behaviour.
//
//go:norace
func PoolSimStart(c PoolConfig) {
	poolSim, poolCfg, poolPos = true, c, 0
	lcg = c.PoisonSeed | 1
	PoolGets, PoolMisses, PoolSteals, PoolPuts, PoolDrops, PoolPoisons, PoolDrains, PoolForeign = 0, 0, 0, 0, 0, 0, 0, 0
	nOwner, ownerOn = 0, true
}

// PoolSimStop returns to pass-through behaviour.
//
//go:norace
func PoolSimStop() { poolSim = false; ownerOn = false }

//go:norace
func poolDecision() (uint16, bool) {
	if poolPos < len(poolCfg.Dec) {
		d := poolCfg.Dec[poolPos]
		poolPos++
		return d, true
	}
	return 0, false
}

//go:norace
func (p *Pool) register() {
	if !p.reg && nPools < maxPools {
		p.reg = true
		allPools[nPools] = p
		nPools++
	}
}

//go:norace
func (p *Pool) pick() (chan any, bool) {
	n := p.nslots
	if n == 0 {
		return nil, false
	}
	idx := n - 1 // LIFO
	if poolSim {
		if d, ok := poolDecision(); ok {
			if poolCfg.MissW > 0 && int(d)%poolCfg.MissW == 0 {
				PoolMisses++
				return nil, false
			}
			idx = int(d/7) % n
			if idx != n-1 {
				PoolSteals++
			}
		}
	}
	return p.removeAt(idx), true
}

//go:norace
func (p *Pool) removeAt(idx int) chan any {
	ch := p.slots[idx]
	for i := idx; i+1 < p.nslots; i++ {
		p.slots[i] = p.slots[i+1]
	}
	p.nslots--
	p.slots[p.nslots] = nil
	return ch
}

//go:norace
func (p *Pool) push(ch chan any) {
	if p.nslots < maxSlots {
		p.slots[p.nslots] = ch
		p.nslots++
	}
}

//go:norace
func noteOwner(x any, get bool) {
	if !ownerOn || x == nil {
		return
	}
	v := reflect.ValueOf(x)
	if v.Kind() != reflect.Pointer {
		return
	}
	ptr := v.Pointer()
	for i := 0; i < nOwner; i++ {
		if ownerPtr[i] == ptr {
			if get {
				if ownerTask[i] != cur {
					PoolForeign++
				}
			} else {
				ownerTask[i] = cur
			}
			return
		}
	}
	if !get && nOwner < maxOwner {
		ownerPtr[nOwner], ownerTask[nOwner] = ptr, cur
		nOwner++
	}
}

var plainMu sync.Mutex

// inRun: is a scheduler run or a pool simulation active (the baton serialises everything then)?
//
//go:norace
func inRun() bool { return schedActive || poolSim }

// Get mirrors sync.Pool.Get.
func (p *Pool) Get() any {
	if !inRun() {
		// outside a simulated run (repository-test gate, where goroutines of the code
		// under test run for real): a plain mutex-protected free list
		plainMu.Lock()
		p.register()
		ch, ok := p.pick()
		plainMu.Unlock()
		if ok {
			return <-ch
		}
		if p.New != nil {
			return p.New()
		}
		return nil
	}
	p.register()
	SchedPoint(-1)
	markCrit(+1)
	countGet()
	ch, ok := p.pick()
	if ok {
		x := <-ch
		noteOwner(x, true)
		return x
	}
	if p.New != nil {
		return p.New()
	}
	return nil
}

//go:norace
func countGet() { PoolGets++ }

//go:norace
func markCrit(d int8) {
	if schedActive && cur >= 0 && cur < maxIDs {
		inPoolCrit[cur] += d
		if inPoolCrit[cur] < 0 {
			inPoolCrit[cur] = 0
		}
	}
}

// Put mirrors sync.Pool.Put.
func (p *Pool) Put(x any) {
	if !inRun() {
		if x == nil {
			return
		}
		ch := make(chan any, 1)
		ch <- x
		plainMu.Lock()
		p.register()
		p.store(ch)
		plainMu.Unlock()
		return
	}
	p.register()
	if x == nil {
		return
	}
	if p.putPrep(x) {
		ch := make(chan any, 1)
		ch <- x
		p.store(ch)
	}
	markCrit(-1)
	SchedPoint(-3)
}

//go:norace
func (p *Pool) store(ch chan any) { p.push(ch) }

//go:norace
func (p *Pool) putPrep(x any) bool {
	PoolPuts++
	noteOwner(x, false)
	if !poolSim {
		return true
	}
	if poolCfg.Poison {
		poison(x)
	}
	if d, ok := poolDecision(); ok && poolCfg.DropW > 0 && int(d)%poolCfg.DropW == 0 {
		PoolDrops++
		return false
	}
	return true
}

//go:norace
func nextRand() byte {
	lcg = lcg*6364136223846793005 + 1442695040888963407
	return byte(lcg >> 56)
}

// poison overwrites an object the owner has given up: legal for a pool, and it
// turns any later read through a stale reference into a visible wrong result.
//
//go:norace
func poison(x any) {
	v := reflect.ValueOf(x)
	if v.Kind() != reflect.Pointer || v.IsNil() {
		return
	}
	e := v.Elem()
	switch e.Kind() {
	case reflect.Array:
		if e.Type().Elem().Kind() == reflect.Uint8 {
			for i := 0; i < e.Len(); i++ {
				e.Index(i).SetUint(uint64(nextRand() | 0x80))
			}
			PoolPoisons++
		}
	case reflect.Slice:
		if e.Type().Elem().Kind() == reflect.Uint8 {
			full := e.Slice3(0, e.Cap(), e.Cap())
			b := full.Bytes()
			for i := range b {
				b[i] = nextRand() | 0x80
			}
			// arbitrary length <= cap (what an adversary may legally leave behind)
			n := 0
			if e.Cap() > 0 {
				n = int(nextRand()) % (e.Cap() + 1)
			}
			e.Set(full.Slice3(0, n, e.Cap()))
			PoolPoisons++
		}
	}
}

// PoolDrainAll empties every pool (models a garbage collection).
//
//go:norace
func PoolDrainAll() {
	for k := 0; k < nPools; k++ {
		p := allPools[k]
		for i := 0; i < p.nslots; i++ {
			p.slots[i] = nil
		}
		p.nslots = 0
	}
	PoolDrains++
}

// PoolCount returns the number of registered pools and stored objects.
//
//go:norace
func PoolCount() (pools, objects int) {
	for k := 0; k < nPools; k++ {
		objects += allPools[k].nslots
	}
	return nPools, objects
}

// PoolTake lets the adversary take an object out of registered pool k
// (nil if none). It synchronises exactly like Get.
func PoolTake(k int, which int) any {
	ch := poolTakeSlot(k, which)
	if ch == nil {
		return nil
	}
	return <-ch
}

//go:norace
func poolTakeSlot(k, which int) chan any {
	if nPools == 0 {
		return nil
	}
	p := allPools[k%nPools]
	if p.nslots == 0 {
		return nil
	}
	return p.removeAt(which % p.nslots)
}

// PoolGive puts an object back into registered pool k (adversary), unpoisoned.
func PoolGive(k int, x any) {
	if poolsEmpty() || x == nil {
		return
	}
	ch := make(chan any, 1)
	ch <- x
	poolGiveSlot(k, ch)
}

//go:norace
func poolsEmpty() bool { return nPools == 0 }

//go:norace
func poolGiveSlot(k int, ch chan any) {
	allPools[k%nPools].push(ch)
}

// ---------------------------------------------------------------------------
// locks: a changed tree that adds one must neither deadlock the baton nor lose
// its happens-before edges, so the real primitive is kept and only the blocking
// is turned into a scheduling loop.

type Mutex struct{ mu sync.Mutex }

func (m *Mutex) Lock() {
	if !chanSim() {
		m.mu.Lock() // outside a simulated run (repository-test gate): the plain primitive
		return
	}
	for !m.mu.TryLock() {
		spin()
	}
	SchedPoint(-4)
}
func (m *Mutex) Unlock()       { m.mu.Unlock(); SchedPoint(-5) }
func (m *Mutex) TryLock() bool { return m.mu.TryLock() }

type RWMutex struct{ mu sync.RWMutex }

func (m *RWMutex) Lock() {
	if !chanSim() {
		m.mu.Lock()
		return
	}
	for !m.mu.TryLock() {
		spin()
	}
	SchedPoint(-4)
}
func (m *RWMutex) Unlock() { m.mu.Unlock(); SchedPoint(-5) }
func (m *RWMutex) RLock() {
	if !chanSim() {
		m.mu.RLock()
		return
	}
	for !m.mu.TryRLock() {
		spin()
	}
	SchedPoint(-4)
}
func (m *RWMutex) RUnlock()       { m.mu.RUnlock(); SchedPoint(-5) }
func (m *RWMutex) TryLock() bool  { return m.mu.TryLock() }
func (m *RWMutex) TryRLock() bool { return m.mu.TryRLock() }
func (m *RWMutex) RLocker() sync.Locker {
	return rlocker{m}
}

type rlocker struct{ m *RWMutex }

func (r rlocker) Lock()   { r.m.RLock() }
func (r rlocker) Unlock() { r.m.RUnlock() }

// Once keeps sync.Once semantics; the function body contains yield points, a
// second task arriving meanwhile spins at a scheduling point.
type Once struct {
	mu   Mutex
	done bool
}

func (o *Once) Do(f func()) {
	o.mu.Lock()
	defer o.mu.Unlock()
	if !o.done {
		defer func() { o.done = true }()
		f()
	}
}

// spin: the lock is held by a parked task - force a hand-over. The baton goes
// round-robin to the next live task after the caller, so the holder is reached
// within nTasks hops (a decision-driven choice can cycle among the waiters and
// never reach the holder: seen as a livelock with a correctly locked cache).
//
//go:norace
func spin() {
	if !schedActive || cur == mainTask {
		panic("verifrt: lock held while no other task can run (deadlock in the simulated program)")
	}
	// Round-robin hand-over reaches every live task within nAlive spins, and a
	// task that is not itself waiting executes a statement (Yield resets the
	// streak): a streak of several full rounds means every live task waits.
	spinStreak++
	me := cur
	to := -1
	for i := nextID(me); ; i = nextID(i) {
		if i < 0 {
			i = nextID(-1)
			if i < 0 {
				break
			}
		}
		if i == me {
			break
		}
		if alive[i] && blockedOn[i] == 0 {
			to = i
			break
		}
	}
	Decisions++
	if to < 0 || spinStreak > uint64(4*nAlive+64) {
		if nAliveBase == 0 {
			// Only goroutines the code under test started are left and all of them
			// wait: the run is over. They stay parked (alive, waiting for the baton)
			// and are part of the next run of this process.
			spinStreak = 0
			handOver(me, mainTask, -13)
			waitBaton(me)
			return
		}
		if to < 0 {
			panic(Deadlock{Msg: deadlockInfo("verifrt: deadlock - a caller waits on a lock or channel and no other task is alive"), PollingSelect: selectPollers > 0})
		}
		panic(Deadlock{Msg: deadlockInfo("verifrt: deadlock - every live task waits on a channel or lock that nobody will release"), PollingSelect: selectPollers > 0})
	}
	handOver(me, to, -6)
	waitBaton(me)
}

//go:norace
func deadlockInfo(msg string) string {
	d := []byte(msg + " [alive=")
	d = appendInt(d, nAlive)
	d = append(d, " callers="...)
	d = appendInt(d, nAliveBase)
	d = append(d, " parked="...)
	d = appendInt(d, nBlocked)
	d = append(d, " me="...)
	d = appendInt(d, cur)
	d = append(d, " parkedIDs="...)
	for i := nextID(-1); i >= 0; i = nextID(i) {
		if blockedOn[i] != 0 {
			d = appendInt(d, i)
			if blockedSend[i] {
				d = append(d, 's')
			} else {
				d = append(d, 'r')
			}
			if !alive[i] {
				d = append(d, '!')
			}
			d = append(d, ' ')
		}
	}
	return string(append(d, ']'))
}

func appendInt(b []byte, v int) []byte {
	if v < 0 {
		b = append(b, '-')
		v = -v
	}
	var t [20]byte
	n := 0
	for {
		t[n] = byte('0' + v%10)
		n++
		v /= 10
		if v == 0 {
			break
		}
	}
	for n > 0 {
		n--
		b = append(b, t[n])
	}
	return b
}

// Deadlock is what a task panics with when every live task waits. With
// PollingSelect set a rewritten select was among the waiting: two selects
// facing each other on an unbuffered channel never meet in this simulator, so
// such a deadlock may be the simulator's and is reported as infrastructure
// trouble; without it the deadlock is the program's.
type Deadlock struct {
	Msg           string
	PollingSelect bool
}

func (d Deadlock) Error() string { return d.Msg }
