//go:build verif

package verifrt

import (
	"runtime"
	"unsafe"
)

// Channel operations of the code under test in the World A build: the
// instrumenter rewrites `<-ch` to Recv(ch) and `ch <- v` to Send(ch, v). A task
// never blocks inside the Go runtime while it holds the baton: it polls the
// channel and passes the baton to the next live task in between (like
// Mutex.Lock). Outside a simulated run the operations are the plain blocking
// ones. The channel itself stays real, so the race detector keeps the
// happens-before edges the program created with it.

// ChanWaits counts polls that found the channel not ready (a task really waited on another one).
var ChanWaits uint64

var spinStreak uint64

func Recv[T any](ch <-chan T) T {
	v, _ := Recv2(ch)
	return v
}

func Recv2[T any](ch <-chan T) (T, bool) {
	if !chanSim() {
		v, ok := <-ch
		return v, ok
	}
	if ch == nil {
		panic("verifrt: receive from nil channel blocks forever (deadlock in the simulated program)")
	}
	unbuf := cap(ch) == 0
	key := chanKey(ch)
	for {
		select {
		case v, ok := <-ch:
			if ok && unbuf {
				wake(key, true) // the sender that was parked on this rendezvous
			}
			SchedPoint(-7)
			return v, ok
		default:
		}
		if unbuf {
			// Unbuffered: a rendezvous needs one side really parked in the runtime, or
			// two polling sides would never meet.
			if partnerMarked(key, true) {
				// a sender is marked as parked here but has not reached the runtime yet (a
				// goroutine switch right after its hand-over): let it get there and try again
				noteRetry()
				runtime.Gosched()
				continue
			}
			if !partnerMarked(key, false) {
				// nobody parked on this side yet (one parked task per channel and direction:
				// the order in which the runtime serves them is then never in question):
				// mark the task as parked, hand the baton on and block for real. The partner's
				// non-blocking attempt completes the operation and marks it runnable again.
				me := parkBegin(key, false)
				if ParkRaceTest {
					runtime.Gosched()
				}
				v, ok := <-ch
				parkEnd(me)
				return v, ok
			}
		}
		chanSpin()
	}
}

func Send[T any](ch chan<- T, v T) {
	if !chanSim() {
		ch <- v
		return
	}
	if ch == nil {
		panic("verifrt: send on nil channel blocks forever (deadlock in the simulated program)")
	}
	unbuf := cap(ch) == 0
	key := chanKey(ch)
	for {
		select {
		case ch <- v:
			if unbuf {
				wake(key, false) // the receiver that was parked on this rendezvous
			}
			SchedPoint(-8)
			return
		default:
		}
		if unbuf {
			if partnerMarked(key, false) {
				noteRetry()
				runtime.Gosched()
				continue
			}
			if !partnerMarked(key, true) {
				me := parkBegin(key, true)
				if ParkRaceTest {
					runtime.Gosched()
				}
				ch <- v
				parkEnd(me)
				return
			}
		}
		chanSpin()
	}
}

// Close replaces the builtin: receivers parked on an unbuffered channel are woken by the runtime and must be schedulable again.
func Close[T any](ch chan<- T) {
	close(ch)
	if chanSim() && cap(ch) == 0 {
		for wake(chanKey(ch), false) {
		}
		SchedPoint(-16)
	}
}

// WokeRecv / WokeSend: a case of a rewritten select completed a rendezvous.
func WokeRecv[T any](ch <-chan T) {
	if chanSim() && ch != nil && cap(ch) == 0 {
		wake(chanKey(ch), true)
	}
}

func WokeSend[T any](ch chan<- T) {
	if chanSim() && ch != nil && cap(ch) == 0 {
		wake(chanKey(ch), false)
	}
}

func chanKey[C any](ch C) uintptr { return *(*uintptr)(unsafe.Pointer(&ch)) }

// tasks parked inside the runtime on an unbuffered channel
var (
	blockedOn   [maxIDs]uintptr
	blockedSend [maxIDs]bool
	blockedSeq  [maxIDs]uint64
	nBlocked    int
	parkSeq     uint64
	Parks       uint64
)

// parkBegin marks the running task as parked on key and hands the baton to the
// next schedulable task. The caller then blocks in the runtime. With nobody
// left to run: if no caller is alive the run is over (the goroutine stays
// parked into the next run); otherwise the program is deadlocked.
//
//go:norace
func parkBegin(key uintptr, send bool) int {
	me := cur
	parkSeq++
	Parks++
	blockedOn[me], blockedSend[me], blockedSeq[me] = key, send, parkSeq
	nBlocked++
	to := -1
	for i := nextID(me); ; i = nextID(i) {
		if i < 0 {
			i = nextID(-1)
			if i < 0 {
				break
			}
		}
		if i == me {
			break
		}
		if alive[i] && blockedOn[i] == 0 {
			to = i
			break
		}
	}
	if to < 0 {
		if callersRunnable() {
			panic("verifrt: harness defect - schedulable caller not found")
		}
		if nAliveBase > 0 {
			panic(Deadlock{Msg: deadlockInfo("verifrt: deadlock - every caller waits on a channel or lock that nobody will release"), PollingSelect: selectPollers > 0})
		}
		to = mainTask
	}
	// whoever gets the baton now first lets this goroutine reach its blocking
	// operation (see waitBaton): the order in which tasks are marked is then the
	// order in which the runtime queued them, and a non-blocking attempt by the
	// next task finds this one really parked
	parkYield = true
	handOver(me, to, -15)
	return me
}

var parkYield bool

// ParkRaceTest (self-test only, VERIF_PARKRACE=1): every parking goroutine loses
// the processor between its hand-over and its blocking operation - the goroutine
// switch the protocol above has to tolerate.
var ParkRaceTest bool

// partnerMarked: is a task marked as parked on key in the given direction?
//
//go:norace
func partnerMarked(key uintptr, sender bool) bool {
	if nBlocked == 0 {
		return false
	}
	for i := nextID(-1); i >= 0; i = nextID(i) {
		if blockedOn[i] == key && blockedSend[i] == sender {
			return true
		}
	}
	return false
}

// Retries counts non-blocking attempts repeated because the partner was marked but not parked yet.
var Retries uint64

//go:norace
func noteRetry() { Retries++ }

//go:norace
func callersRunnable() bool {
	for i := 0; i < nTasks; i++ {
		if alive[i] && blockedOn[i] == 0 {
			return true
		}
	}
	return false
}

// parkEnd: the real operation has completed - a partner did it and, holding the
// baton, has cleared this task's mark (wake). The goroutine runs without the
// baton here and therefore touches no scheduler state; it just waits for its turn.
//
//go:norace
func parkEnd(me int) {
	waitBaton(me)
}

// wake marks the longest-parked task on key (sender or receiver side) as schedulable.
//
//go:norace
func wake(key uintptr, sender bool) bool {
	if nBlocked == 0 {
		return false
	}
	best := -1
	for i := nextID(-1); i >= 0; i = nextID(i) {
		if blockedOn[i] == key && blockedSend[i] == sender && (best < 0 || blockedSeq[i] < blockedSeq[best]) {
			best = i
		}
	}
	if best < 0 {
		return false
	}
	blockedOn[best] = 0
	nBlocked--
	return true
}

// chanSpin passes the baton on (spin reports a program in which every live
// task waits for ever as a deadlock instead of spinning until the watchdog).
//
//go:norace
func chanSpin() { ChanWaits++; spin() }

// chanSim: is the caller a task of a simulated run? (plain scheduler state: keep it away from the race detector)
//
//go:norace
func chanSim() bool { return schedActive && cur != mainTask }
