//go:build verif

package verifrt

import "sync"

// Reader is installed into crypto/rand.Reader: plan-determined byte stream,
// plan-determined chunk sizes (short reads), a scheduling point after every
// chunk, and a log of which task's which call received every byte.
type Reader struct {
	Kind   int // 0 counting, 1 zeros, 2 0xFF, 3 PRNG, 4 base32-symbol sweep
	Seed   uint64
	Chunks []uint16 // 0 = whole request
	cpos   int
	Pos    uint64
	Log    []ReadRec
	Shared bool // World C: handlers run on real goroutines between barriers
	mu     sync.Mutex
}

type ReadRec struct {
	Task int
	Call int32
	Off  uint64
	N    int
	Want int // len(p) of this Read call
}

// ByteAt is the content of the stream.
func (r *Reader) ByteAt(off uint64) byte {
	switch r.Kind {
	case 0:
		return byte(off)
	case 1:
		return 0
	case 2:
		return 0xFF
	case 3:
		x := (off + r.Seed) * 0x9E3779B97F4A7C15
		x ^= x >> 29
		x *= 0xBF58476D1CE4E5B9
		x ^= x >> 32
		return byte(x)
	default:
		// consecutive 5-bit groups 0,1,2,...,31,0,... so every base32 symbol appears
		bit := off * 8
		var b byte
		for i := uint64(0); i < 8; i++ {
			g := (bit + i) / 5
			sym := byte(g % 32)
			pos := 4 - (bit+i)%5
			b = b<<1 | (sym>>pos)&1
		}
		return b
	}
}

//go:norace
func (r *Reader) next(want int) (off uint64, n int) {
	n = want
	if r.cpos < len(r.Chunks) {
		c := int(r.Chunks[r.cpos])
		r.cpos++
		if c > 0 && c < n {
			n = c
		}
	}
	off = r.Pos
	r.Pos += uint64(n)
	call := int32(-1)
	if cur >= 0 && cur < maxIDs {
		call = curCall[cur]
	}
	task := mainTask
	if schedActive {
		task = cur
		if cur >= 0 && cur < maxIDs {
			task = int(rootOf[cur]) // a goroutine the library started reads on behalf of its caller (-1: none left)
		}
	}
	r.logAdd(ReadRec{Task: task, Call: call, Off: off, N: n, Want: want})
	return
}

// logAdd appends without runtime.growslice/slicecopy (those carry race hooks
// even when called from a norace function).
//
//go:norace
func (r *Reader) logAdd(rec ReadRec) {
	if len(r.Log) == cap(r.Log) {
		nl := make([]ReadRec, len(r.Log), 2*cap(r.Log)+64)
		for i := range r.Log {
			nl[i] = r.Log[i]
		}
		r.Log = nl
	}
	r.Log = r.Log[:len(r.Log)+1]
	r.Log[len(r.Log)-1] = rec
}

func (r *Reader) Read(p []byte) (int, error) {
	if len(p) == 0 {
		return 0, nil
	}
	if r.Shared {
		r.mu.Lock()
	}
	off, n := r.next(len(p))
	if r.Shared {
		r.mu.Unlock()
	}
	for i := 0; i < n; i++ {
		p[i] = r.ByteAt(off + uint64(i))
	}
	SchedPoint(-2)
	return n, nil
}

// SetCurCall tells the runtime which call of task t is executing (for logs).
//
//go:norace
func SetCurCall(t int, call int32) {
	if t >= 0 && t < maxIDs {
		curCall[t] = call
	}
}

// State returns the stream position and chunk index (for an exact re-run of
// what a consumer will see from here on).
func (r *Reader) State() (pos uint64, cpos int) {
	if r.Shared {
		r.mu.Lock()
		defer r.mu.Unlock()
	}
	return r.Pos, r.cpos
}

// CloneAt returns a private reader over the same stream and chunking, positioned at the given state.
func (r *Reader) CloneAt(pos uint64, cpos int) *Reader {
	return &Reader{Kind: r.Kind, Seed: r.Seed, Chunks: r.Chunks, cpos: cpos, Pos: pos}
}
